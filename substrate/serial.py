"""SimSerialOs: stands in for `os` inside ioflo/aio/serial/serialing.py (read / write on a tty fd)."""
import errno
import os as _os


class SimSerialOs(object):
    def __init__(self, faults, cap=32, out=None):
        self.faults = faults          # substrate.net.Faults
        self.cap = cap
        self.out = out
        self.line_out = bytearray()   # bytes accepted by write, not yet drained by the device
        self.written = bytearray()    # every byte ever accepted (oracle)
        self.tx_chunks = []
        self.line_in = bytearray()    # bytes the device has delivered, unread
        self.rx_chunks = []
        self.closed = []
        self.path = _os.path
        self.O_RDWR, self.O_NONBLOCK, self.O_NOCTTY = _os.O_RDWR, _os.O_NONBLOCK, _os.O_NOCTTY

    def ctermid(self):
        return "/dev/sim"

    def close(self, fd):
        self.closed.append(fd)

    def write(self, fd, data):
        f = self.faults.at("write@serial")
        if f is not None:
            if f[0] == "eagain":
                raise OSError(errno.EAGAIN, "sim: EAGAIN")
            if f[0] == "errno":
                raise OSError(f[1], "sim")
        room = self.cap - len(self.line_out)
        if f is not None and f[0] == "partial":
            room = min(room, f[1])
            if room <= 0:
                return 0
        if room <= 0:
            raise OSError(errno.EAGAIN, "sim: EAGAIN")
        n = min(room, len(data))
        self.line_out.extend(data[:n])
        self.written.extend(data[:n])
        self.tx_chunks.append(n)
        if n < len(data) and self.out is not None:
            self.out.probe("partial-send")
        return n

    def read(self, fd, bs):
        f = self.faults.at("read@serial")
        if f is not None:
            if f[0] == "eagain":
                raise OSError(errno.EAGAIN, "sim: EAGAIN")
            if f[0] == "errno":
                raise OSError(f[1], "sim")
        if not self.line_in:
            raise OSError(errno.EAGAIN, "sim: EAGAIN")
        n = min(bs, len(self.line_in))
        if f is not None and f[0] == "short":
            n = max(1, min(n, f[1]))
        data = bytes(self.line_in[:n])
        del self.line_in[:n]
        self.rx_chunks.append(data)
        return data

    def drain(self, n=None):
        n = len(self.line_out) if n is None else min(n, len(self.line_out))
        del self.line_out[:n]
        return n
