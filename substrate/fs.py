"""SimFS: in-memory file system with a process-death model, standing in for `os` / `open`
inside ioflo/base/logging.py and ioflo/aid/filing.py.

write -> user-space buffer of the open file; flush -> kernel image (what survives the death
of the process); fsync -> marks the kernel image durable (recorded, power loss is not
modelled); close = flush + release.  Crash = process death at a chosen operation index: the
kernel image is what remains, every user buffer is dropped, the file system goes dead (later
calls are ignored so that `finally:` clauses running while the simulated death unwinds cannot
save what a killed process would have lost) and SimKill (a BaseException) is raised.
"""
import errno
import os as _os


class SimKill(BaseException):
    """The simulated process dies here."""


class Inode(object):
    def __init__(self):
        self.data = []        # kernel image: list of text pieces (each write call's text stays one piece)
        self.synced = 0       # number of pieces made durable by fsync

    def text(self):
        return "".join(self.data)

    def size(self):
        return sum(len(p.encode("utf-8")) for p in self.data)


class SimFile(object):
    def __init__(self, fs, path, inode, fd):
        self.fs, self.path, self.inode, self.fd = fs, path, inode, fd
        self.buf = []
        self.closed = False
        self.name = path

    def write(self, text):
        self.fs.op("write", self.path, text)
        if self.closed:
            raise ValueError("I/O operation on closed file.")
        if self.fs.dead:
            return len(text)
        self.buf.append(text)
        self.fs.written.append((self.fs.nops - 1, self.path, text))
        self.fs.written_times.append((getattr(self.fs, "deaths", 0), self.fs.clock() if self.fs.clock else None, self.fs.nops - 1, self.path, text))
        return len(text)

    def flush(self):
        self.fs.op("flush", self.path)
        if self.closed:
            raise ValueError("I/O operation on closed file.")
        if self.fs.dead:
            return
        self.inode.data.extend(self.buf)
        self.buf = []
        self.fs.flushes.append((self.fs.nops - 1, self.path))

    def fileno(self):
        return self.fd

    def writelines(self, lines):
        for line in lines:
            self.write(line)

    def tell(self):
        return self.inode.size() + sum(len(p.encode("utf-8")) for p in self.buf)

    def seek(self, offset, whence=0):      # the log files are only ever appended to
        return self.tell()

    def writable(self):
        return True

    def readable(self):
        return True

    def close(self):
        if self.closed:
            return
        self.fs.op("close", self.path)
        if not self.fs.dead:
            self.inode.data.extend(self.buf)
            self.buf = []
            self.fs.flushes.append((self.fs.nops - 1, self.path))
        self.closed = True
        self.fs.fds.pop(self.fd, None)
        self.fs.fd_inode.pop(self.fd, None)

    def read(self, n=-1):
        return self.inode.text()

    def __enter__(self):
        return self

    def __exit__(self, *a):
        self.close()


class SimPath(object):
    def __init__(self, fs):
        self.fs = fs

    def exists(self, path):
        self.fs.op("exists", path)
        return path in self.fs.files or path in self.fs.dirs

    def getsize(self, path):
        self.fs.op("getsize", path)
        if path not in self.fs.files:
            raise OSError(errno.ENOENT, "sim: no such file", path)
        return self.fs.files[path].size()

    def isfile(self, path):
        self.fs.op("isfile", path)
        return path in self.fs.files

    def isdir(self, path):
        self.fs.op("isdir", path)
        return path in self.fs.dirs

    def lexists(self, path):
        return self.exists(path)

    def __getattr__(self, name):       # pure path functions
        if name in ("getmtime", "getatime", "getctime", "samefile", "islink", "ismount", "realpath"):
            raise AttributeError("SimFS has no os.path.%s" % name)
        return getattr(_os.path, name)


class SimFS(object):
    """Provides what logging.py / filing.py use of `os`, plus `open`."""

    def __init__(self, kill_at=None, faults=None):
        self.files = {}
        self.dirs = set(["/"])
        self.fds = {}
        self.fd_inode = {}         # a descriptor names an inode, not a path (it survives a rename of its file)
        self.next_fd = 10
        self.nops = 0
        self.kill_at = kill_at
        self.dead = False
        self.killed_op = None
        self.written = []          # every (op index, path, text) accepted by write(), in order (oracle side)
        self.flushes = []          # (op index, path) each time a user buffer reached the kernel image
        self.rename_log = []       # (op index, old, new, size of old, new existed with data)
        self.fsync_log = []        # (op index, path): the application-visible "flush completed" points
        self.retired = []          # inodes dropped by design (rename over an existing file, truncation)
        self.log = []
        self.faults = faults or {}  # op index -> ("oserror" | "ioerror")
        self.path = SimPath(self)
        self.O_EXCL, self.O_CREAT, self.O_RDWR = _os.O_EXCL, _os.O_CREAT, _os.O_RDWR
        self.fsyncs = 0
        self.renames = 0
        self.clock = None          # optional callable: simulated time of the running process (set by the harness)
        self.fsync_times = []      # (number of deaths so far, simulated time, path) per completed fsync
        self.fsync_ops = []        # (number of deaths so far, simulated time, op index, path) per completed fsync
        self.written_times = []    # (number of deaths so far, simulated time, op index, path, text) per accepted write

    def op(self, name, *args):
        """Every file-system call is a potential death point."""
        if self.dead:
            return
        n = self.nops
        self.nops += 1
        self.log.append((n, name) + tuple(a if not isinstance(a, str) or len(a) < 40 else a[:40] for a in args))
        if self.kill_at is not None and n == self.kill_at:
            self.dead = True
            self.killed_op = (n, name) + tuple(args[:1])
            raise SimKill()

    def _fault(self, kinds):
        f = self.faults.get(self.nops - 1)
        if f in kinds and not self.dead:
            return f
        return None

    # os functions -------------------------------------------------------------------
    def makedirs(self, path, mode=0o777, exist_ok=False):
        self.op("makedirs", path)
        if self.dead:
            return
        p = path
        while p and p != "/":
            self.dirs.add(p)
            p = _os.path.dirname(p)

    def open(self, path, flags, mode=0o777):
        self.op("os.open", path)
        if self.dead:
            return -1
        if flags & self.O_EXCL and path in self.files:
            raise OSError(errno.EEXIST, "sim: exists", path)
        if path not in self.files:
            self.files[path] = Inode()
        fd = self.next_fd
        self.next_fd += 1
        self.fds[fd] = path
        self.fd_inode[fd] = self.files[path]
        return fd

    def fdopen(self, fd, mode="r", *a, **k):
        self.op("fdopen", self.fds.get(fd))
        if self.dead:
            return SimFile(self, "<dead>", Inode(), fd)
        path = self.fds[fd]
        return SimFile(self, path, self.files[path], fd)

    def builtin_open(self, path, mode="r", *a, **k):
        self.op("open", path, mode)
        if self._fault(("ioerror",)):
            raise IOError(errno.EIO, "sim: injected I/O error", path)
        if self.dead:
            return SimFile(self, "<dead>", Inode(), -1)
        if path not in self.files:
            if "r" in mode and "+" not in mode:
                raise IOError(errno.ENOENT, "sim: no such file", path)
            self.files[path] = Inode()
        if "w" in mode:
            old = self.files[path]
            if old.data:
                self.retired.append((path, "truncate", old))
            self.files[path] = Inode()
        fd = self.next_fd
        self.next_fd += 1
        self.fds[fd] = path
        self.fd_inode[fd] = self.files[path]
        return SimFile(self, path, self.files[path], fd)

    def rename(self, old, new):
        self.op("rename", old, new)
        if self._fault(("oserror",)):
            raise OSError(errno.EACCES, "sim: injected rename error", old)
        if self.dead:
            return
        if old not in self.files:
            raise OSError(errno.ENOENT, "sim: no such file", old)
        over = new in self.files and bool(self.files[new].data)
        if over:
            self.retired.append((new, "rename-over", self.files[new]))
        self.rename_log.append((self.nops - 1, old, new, self.files[old].size(), over))
        self.files[new] = self.files.pop(old)
        self.renames += 1

    def fsync(self, fd):
        self.op("fsync", self.fds.get(fd))
        if self.dead:
            return
        path = self.fds.get(fd)
        ino = self.fd_inode.get(fd)
        if ino is not None:
            ino.synced = len(ino.data)
            for pth, i2 in self.files.items():      # report the file under its current name
                if i2 is ino:
                    path = pth
                    break
        self.fsync_log.append((self.nops - 1, path))
        self.fsync_times.append((getattr(self, "deaths", 0), self.clock() if self.clock else None, path))
        self.fsync_ops.append((getattr(self, "deaths", 0), self.clock() if self.clock else None, self.nops - 1, path))
        self.fsyncs += 1

    def close(self, fd):
        self.fds.pop(fd, None)
        self.fd_inode.pop(fd, None)

    def fdatasync(self, fd):
        return self.fsync(fd)

    def replace(self, old, new):
        return self.rename(old, new)

    def _stat(self, ino):
        import collections
        St = collections.namedtuple("stat_result", "st_mode st_size st_nlink")
        return St(0o100644, ino.size(), 1)

    def fstat(self, fd):
        self.op("fstat", self.fds.get(fd))
        ino = self.fd_inode.get(fd)
        if ino is None:
            if self.dead:
                return self._stat(Inode())
            raise OSError(errno.EBADF, "sim: bad file descriptor")
        return self._stat(ino)

    def stat(self, path):
        self.op("stat", path)
        if path in self.files:
            return self._stat(self.files[path])
        if path in self.dirs:
            import collections
            return collections.namedtuple("stat_result", "st_mode st_size st_nlink")(0o040755, 0, 2)
        if self.dead:
            return self._stat(Inode())
        raise OSError(errno.ENOENT, "sim: no such file", path)

    def remove(self, path):
        self.op("remove", path)
        if self.dead:
            return
        if path not in self.files:
            raise OSError(errno.ENOENT, "sim: no such file", path)
        ino = self.files.pop(path)
        if ino.data:
            self.retired.append((path, "remove", ino))

    def unlink(self, path):
        return self.remove(path)

    def listdir(self, path="."):
        self.op("listdir", path)
        pre = path.rstrip("/") + "/"
        names = set()
        for p in list(self.files) + list(self.dirs):
            if p.startswith(pre) and p != pre:
                names.add(p[len(pre):].split("/", 1)[0])
        return sorted(names)

    def __getattr__(self, name):
        if name in ("sep", "linesep", "curdir", "getcwd", "environ", "errno", "fspath"):
            return getattr(_os, name)
        raise AttributeError("SimFS has no os.%s" % name)

    def revive(self):
        """A new process starts on the surviving image: every descriptor and user buffer of the dead one is gone."""
        self.dead = False
        self.kill_at = None
        self.fds = {}
        self.fd_inode = {}
        self.deaths = getattr(self, "deaths", 0) + 1

    def snapshot(self):
        """The surviving image: path -> text."""
        return dict((p, ino.text()) for p, ino in self.files.items())
