"""Stub TLS: runs ioflo's TLS state handling for real and OpenSSL not at all.

Handshake = two simulated round trips during which do_handshake() raises the
real ssl.SSLWantReadError / SSLWantWriteError; application data travels as
length-framed plaintext records, so a TLS recv can want-read in the middle of a
record as the real one does.  Faults (sites tls_send@role, tls_recv@role,
handshake@role): want_read, want_write, ssleof (ssl.SSLEOFError), eof
(ssl.SSLError(SSL_ERROR_EOF) during handshake), errno.
"""
import errno
import ssl
import struct

from .net import _err

REC_HS, REC_APP = 0x16, 0x17


class SimTlsSocket(object):
    def __init__(self, sock, server_side, ctx, server_hostname=None):
        self.sock = sock
        self.net = sock.net
        self.server_side = server_side
        self.ctx = ctx
        self.server_hostname = server_hostname
        self.hs = 0
        self.done = False
        self.raw = bytearray()
        self.plain = bytearray()
        self.eof = False
        self.maxrec = ctx.maxrec
        self.tx_chunks = []   # plaintext sizes accepted by each successful send
        self.tx_plain = bytearray()
        self.rx_chunks = []

    # passthroughs
    def __getattr__(self, name):
        if name in ("getsockname", "getpeername", "setblocking", "getsockopt", "setsockopt", "fileno", "settimeout"):
            return getattr(self.sock, name)
        raise AttributeError(name)

    @property
    def closed(self):
        return self.sock.closed

    def shutdown(self, how):
        return self.sock.shutdown(how)

    def close(self):
        return self.sock.close()

    def _site(self, op):
        return "%s@%s" % (op, self.sock.role)

    def _fault(self, op):
        f = self.net.faults.at(self._site(op))
        if f is None:
            return
        if f[0] == "want_read":
            raise ssl.SSLWantReadError(ssl.SSL_ERROR_WANT_READ, "sim: want read")
        if f[0] == "want_write":
            raise ssl.SSLWantWriteError(ssl.SSL_ERROR_WANT_WRITE, "sim: want write")
        if f[0] == "ssleof":
            raise ssl.SSLEOFError(ssl.SSL_ERROR_EOF, "sim: EOF occurred in violation of protocol")
        if f[0] == "eof":
            raise ssl.SSLError(ssl.SSL_ERROR_EOF, "sim: unexpected eof")
        if f[0] == "sslerror":
            raise ssl.SSLError(ssl.SSL_ERROR_SSL, "sim: protocol error")
        if f[0] == "errno":
            raise _err(f[1])

    # record layer over the underlying sim socket (no fault lookups below: TLS sites are separate)
    def _put(self, typ, payload):
        rec = struct.pack("!BH", typ, len(payload)) + payload
        s = self.sock
        if s.txpipe is not None and not (s.peer_gone or s.got_rst or s.shut_wr or s.peer is None or s.peer.closed):
            if s.txpipe.cap - s.txpipe.used() < len(rec):
                if s.txpipe.cap < len(rec):
                    s.txpipe.cap = len(rec)  # a record always fits an empty pipe
                if s.txpipe.cap - s.txpipe.used() < len(rec):
                    raise ssl.SSLWantWriteError(ssl.SSL_ERROR_WANT_WRITE, "sim: want write")
        n = s._send(rec, None)
        assert n == len(rec)

    def _get(self):
        """Returns (type, payload) of the next complete record, None at clean EOF; raises want-read."""
        while True:
            if len(self.raw) >= 3:
                typ, ln = struct.unpack("!BH", bytes(self.raw[:3]))
                if len(self.raw) >= 3 + ln:
                    payload = bytes(self.raw[3:3 + ln])
                    del self.raw[:3 + ln]
                    return typ, payload
            try:
                data = self.sock._recv(65536, None)
            except OSError as ex:
                if ex.errno == errno.EAGAIN:
                    raise ssl.SSLWantReadError(ssl.SSL_ERROR_WANT_READ, "sim: want read")
                raise
            if not data:
                self.eof = True
                return None
            self.raw.extend(data)

    def do_handshake(self):
        if self.done:
            return
        self._fault("handshake")
        if not self.server_side:
            if self.hs == 0:
                self._put(REC_HS, b"CH")
                self.hs = 1
            if self.hs == 1:
                r = self._get()
                if r is None:
                    raise ssl.SSLEOFError(ssl.SSL_ERROR_EOF, "sim: EOF occurred in violation of protocol")
                if r != (REC_HS, b"SH"):
                    raise ssl.SSLError(ssl.SSL_ERROR_SSL, "sim: bad handshake record %r" % (r,))
                self._put(REC_HS, b"CF")
                self.hs = 2
            self.done = True
        else:
            if self.hs == 0:
                r = self._get()
                if r is None:
                    raise ssl.SSLEOFError(ssl.SSL_ERROR_EOF, "sim: EOF occurred in violation of protocol")
                if r != (REC_HS, b"CH"):
                    raise ssl.SSLError(ssl.SSL_ERROR_SSL, "sim: bad handshake record %r" % (r,))
                self._put(REC_HS, b"SH")
                self.hs = 1
            if self.hs == 1:
                r = self._get()
                if r is None:
                    raise ssl.SSLEOFError(ssl.SSL_ERROR_EOF, "sim: EOF occurred in violation of protocol")
                if r != (REC_HS, b"CF"):
                    raise ssl.SSLError(ssl.SSL_ERROR_SSL, "sim: bad handshake record %r" % (r,))
                self.hs = 2
            self.done = True

    def send(self, data):
        self.sock._check_open()
        self._fault("tls_send")
        data = bytes(data)
        if not data:
            return 0
        n = min(len(data), self.maxrec)
        f = self.net.faults.table.get((self._site("tls_send") + ":len", self.net.faults.count.get(self._site("tls_send"), 1) - 1))
        if f is not None and f[0] == "partial":
            n = max(1, min(n, f[1]))
            self.net.out_fault("tls_send:partial")
        self._put(REC_APP, data[:n])
        self.tx_chunks.append(n)
        self.tx_plain.extend(data[:n])
        self.sock.last_activity = self.net.now
        if n < len(data):
            self.net.out_probe("partial-send")
        return n

    def recv(self, bufsize):
        self.sock._check_open()
        self._fault("tls_recv")
        if not self.plain:
            if self.eof:
                return b""
            r = self._get()
            if r is None:
                return b""   # suppress_ragged_eofs=True is the wrap_socket default ioflo uses
            self.plain.extend(r[1])
        data = bytes(self.plain[:bufsize])
        del self.plain[:len(data)]
        self.rx_chunks.append(data)
        self.sock.last_activity = self.net.now
        return data


class StubContext(object):
    """What ioflo's TLS classes need from an ssl.SSLContext."""

    def __init__(self, maxrec=16):
        self.verify_mode = ssl.CERT_NONE
        self.check_hostname = False
        self.options = 0
        self.maxrec = maxrec
        self.wrapped = []

    def load_verify_locations(self, *a, **k):
        pass

    def load_default_certs(self, *a, **k):
        pass

    def load_cert_chain(self, *a, **k):
        pass

    def set_ciphers(self, *a, **k):
        pass

    def wrap_socket(self, sock, server_side=False, do_handshake_on_connect=False, suppress_ragged_eofs=True,
                    server_hostname=None):
        t = SimTlsSocket(sock, server_side, self, server_hostname)
        self.wrapped.append(t)
        return t
