"""Clock / calendar / randomness shims installed as module attributes of ioflo modules."""
import datetime as _dt
import random as _random


class SimTime(object):
    """Replacement for the `time` module seen by one ioflo module.

    `script` is a list of deltas applied one per clock read (a fault may land at
    any individual read: 0 = standstill, negative = backward jump, large =
    forward step).  When the script runs out every read advances by `default`.
    """

    def __init__(self, now=1000.0, script=None, default=0.0, out=None):
        self.now = now
        self.script = list(script or [])
        self.i = 0
        self.default = default
        self.reads = 0
        self.out = out
        self.sleeps = []
        self.sleep_hook = None
        self.log = None  # set to [] to record every value returned

    def time(self):
        self.reads += 1
        if self.i < len(self.script):
            d = self.script[self.i]
            self.i += 1
            if self.out is not None:
                if d < 0:
                    self.out.fault("clock.backward")
                elif d == 0:
                    self.out.fault("clock.standstill")
                elif d >= 64:
                    self.out.fault("clock.forward-step")
        else:
            d = self.default
        self.now += d
        if self.log is not None:
            self.log.append(self.now)
        return self.now

    def sleep(self, d):
        self.sleeps.append(d)
        if self.sleep_hook is not None:
            self.sleep_hook(d)
        else:
            self.now += d

    def monotonic(self):
        return self.time()

    def perf_counter(self):
        return self.time()

    # names ioflo does not use but a module may touch
    def gmtime(self, *a):
        import time
        return time.gmtime(*a)

    def strftime(self, *a):
        import time
        return time.strftime(*a)


class SimDatetimeModule(object):
    """Stands in for the `datetime` module: now()/utcnow() come from a SimTime."""

    def __init__(self, clock, epoch=None):
        self._clock = clock
        epoch = epoch or _dt.datetime(2020, 1, 1, 0, 0, 0)
        mod = self

        class datetime(_dt.datetime):
            @classmethod
            def now(cls, tz=None):
                return epoch + _dt.timedelta(seconds=mod._clock.now)

            @classmethod
            def utcnow(cls):
                return epoch + _dt.timedelta(seconds=mod._clock.now)

        self.datetime = datetime
        self.timedelta = _dt.timedelta
        self.date = _dt.date
        self.time = _dt.time
        self.timezone = _dt.timezone
        self.tzinfo = _dt.tzinfo


class SeededRandomModule(object):
    """Stands in for the `random` module; SystemRandom() is seeded too."""

    def __init__(self, rng):
        self._r = rng
        for name in ("random", "randint", "choice", "randrange", "getrandbits", "uniform", "shuffle", "sample"):
            setattr(self, name, getattr(rng, name))

    def SystemRandom(self):
        return self._r

    Random = _random.Random
