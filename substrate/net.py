"""SimNet: the only network ioflo sees in a run.

`Net` is one simulated world.  `Net.module(role)` returns an object that stands
in for the `socket` module of one ioflo module (role tags the fault site:
"send@cli", "recv@srv", ...).  Below the API, TCP is reliable and ordered: a
bounded per-direction byte pipe whose delivery (how many bytes move, when) is
decided by the simulator.  Non-blocking semantics follow what the sandbox's
Linux kernel does on loopback (pinned by selftest/fidelity.py):

  connect_ex ok      : EINPROGRESS, 0, EISCONN           (EALREADY while pending)
  connect_ex refused : EINPROGRESS, ECONNREFUSED, then a fresh attempt
  recv empty/open    : EAGAIN;  after peer FIN: b'' (repeatedly)
  recv after peer RST: ECONNRESET once, then b''
  send               : 0 < n <= len, or EAGAIN when the pipe is full
  send after peer closed: succeeds once (peer answers RST), then EPIPE
  accept empty       : EAGAIN
  UDP unconnected    : sendto never reports ICMP errors; recvfrom EAGAIN when empty

Faults are *data*: plan["faults"] = [[site, occurrence, kind, arg], ...]; the
n-th call at a site looks itself up.  Every fired fault is counted.
"""
import errno
import socket as _real
from collections import deque

FIN = object()


class SimSockError(OSError):
    pass


def _err(code):
    return OSError(code, "sim: %s" % errno.errorcode.get(code, code))


# errors after which the kernel has torn the connection down (a later getpeername() gives ENOTCONN)
_HARD_LOSS = frozenset(getattr(errno, n) for n in ("ECONNRESET", "ECONNABORTED", "ETIMEDOUT", "EHOSTUNREACH", "EHOSTDOWN",
                                                   "ENETUNREACH", "ENETDOWN", "ENETRESET", "EPIPE", "ECONNREFUSED"))


class Faults(object):
    """Fault table looked up by (site, occurrence)."""

    def __init__(self, faults, out=None):
        self.table = {}
        for f in faults or []:
            site, occ, kind = f[0], f[1], f[2]
            arg = f[3] if len(f) > 3 else None
            self.table[(site, occ)] = (kind, arg)
        self.count = {}
        self.out = out
        self.enabled = True
        self.fired = []

    def at(self, site):
        n = self.count.get(site, 0)
        self.count[site] = n + 1
        if not self.enabled:
            return None
        f = self.table.get((site, n))
        if f is not None:
            self.fired.append((site, n, f[0], f[1]))
            if self.out is not None:
                self.out.fault("%s:%s" % (site.split("@")[0], f[0] if f[0] != "errno" else errno.errorcode.get(f[1], f[1])))
        return f


class Pipe(object):
    """One direction of a TCP connection."""

    def __init__(self, cap):
        self.cap = cap
        self.inflight = deque()   # bytes chunks and FIN
        self.nflight = 0
        self.rx = bytearray()     # delivered, unread
        self.fin = False          # FIN delivered to the reader
        self.reset = False        # reader sees ECONNRESET next
        self.total_in = bytearray()  # every byte ever accepted from the writer (oracle)

    def used(self):
        return self.nflight + len(self.rx)

    def push(self, data):
        self.inflight.append(bytes(data))
        self.nflight += len(data)
        self.total_in.extend(data)

    def deliver(self, n=None):
        """Move up to n bytes (all if None) and any FIN that follows them. Returns bytes moved."""
        moved = 0
        while self.inflight:
            item = self.inflight[0]
            if item is FIN:
                self.inflight.popleft()
                self.fin = True
                continue
            if n is not None and moved >= n:
                break
            take = len(item) if n is None else min(len(item), n - moved)
            self.rx.extend(item[:take])
            moved += take
            self.nflight -= take
            if take == len(item):
                self.inflight.popleft()
            else:
                self.inflight[0] = item[take:]
        return moved

    def pending(self):
        return bool(self.inflight)


class SimSocket(object):
    def __init__(self, net, role, kind="tcp"):
        self.net = net
        self.role = role
        self.kind = kind
        self.sid = net._next_sid()
        self.closed = False
        self.laddr = None         # local address
        self.raddr = None         # peer address
        self.peer = None          # SimSocket of the other end once connected
        self.state = "new"        # new / pending / refused / established / listening
        self.backlog = deque()
        self.rxpipe = None        # Pipe read by this socket
        self.txpipe = None        # Pipe written by this socket
        self.shut_wr = False
        self.shut_rd = False
        self.peer_gone = False    # peer fully closed: next send "succeeds", then EPIPE
        self.got_rst = False
        self.opts = {}
        self.bound = False
        self.blocking = True
        self.pending_steps = 0
        self.dgrams = deque()     # udp receive queue of (data, src)
        self.fixed_port = None
        self.last_activity = None  # net.now of the last byte accepted by send or returned by recv
        self.close_time = None
        self.created = net.now
        self.created_seq = self.sid
        self.tx_chunks = []       # sizes accepted by each successful send (oracle side)
        self.rx_chunks = []       # data returned by each successful recv (oracle side)
        net.socks.append(self)

    # -- plumbing ----------------------------------------------------------
    def _site(self, op):
        return "%s@%s" % (op, self.role)

    def _check_open(self):
        if self.closed:
            raise _err(errno.EBADF)

    def fileno(self):
        return 1000 + self.sid

    def setsockopt(self, level, opt, val):
        self._check_open()
        self.opts[(level, opt)] = val

    def getsockopt(self, level, opt):
        self._check_open()
        v = self.opts.get((level, opt), 0)
        if opt in (_real.SO_SNDBUF, _real.SO_RCVBUF):
            return max(2 * v, 4608) if v else 212992
        return v

    def setblocking(self, flag):
        self._check_open()
        self.blocking = bool(flag)

    def settimeout(self, t):
        self.blocking = t is None

    def bind(self, addr):
        self._check_open()
        host, port = addr[0], addr[1]
        if host in ("", "0.0.0.0"):
            host = "0.0.0.0"
        if port == 0:
            port = self.net.ephemeral(self)
        key = (self.kind, port) if self.kind == "udp" else (self.kind, host, port)
        holder = self.net.bound.get(key)
        if holder is not None and holder is not self and not holder.closed and self.kind == "tcp" and holder.state == "listening":
            raise _err(errno.EADDRINUSE)
        if self.kind == "udp" and holder is not None and holder is not self and not holder.closed:
            raise _err(errno.EADDRINUSE)
        self.net.bound[key] = self
        self.laddr = (host, port)
        self.bound = True

    def getsockname(self):
        self._check_open()
        if self.laddr is None:
            return ("0.0.0.0", 0)
        return self.laddr

    def getpeername(self):
        self._check_open()
        # measured on Linux loopback: once recv()/send() has reported the loss of the connection (ECONNRESET, ...) the
        # socket is unconnected again and getpeername() fails with ENOTCONN
        if self.state != "established" or self.raddr is None or getattr(self, "lost", False):
            raise _err(errno.ENOTCONN)
        return self.raddr

    # -- TCP server side ---------------------------------------------------
    def listen(self, n=5):
        self._check_open()
        if not self.bound:
            raise _err(errno.EINVAL)
        self.state = "listening"
        self.net.listeners[(self.laddr[0], self.laddr[1])] = self

    def accept(self):
        self._check_open()
        if self.state != "listening":
            raise _err(errno.EINVAL)
        f = self.net.faults.at(self._site("accept"))
        if f is not None:
            if f[0] == "eagain":
                raise _err(errno.EAGAIN)
            if f[0] == "errno":
                raise _err(f[1])
        if not self.backlog:
            raise _err(errno.EAGAIN)
        s = self.backlog.popleft()
        self.net.log("accept", self.sid, s.sid, s.raddr)
        return s, s.raddr

    # -- TCP client side ---------------------------------------------------
    def connect_ex(self, addr):
        self._check_open()
        net = self.net
        host, port = addr[0], addr[1]
        if self.state == "established":
            return errno.EISCONN
        if self.state == "connected0":   # handshake done, first report is 0
            self.state = "established"
            net.log("connected", self.sid, self.laddr, self.raddr)
            return 0
        if self.state == "refused":
            self.state = "new"
            return errno.ECONNREFUSED
        if self.state == "failed":
            code = self.fail_code
            self.state = "new"
            return code
        if self.state == "pending":
            return errno.EALREADY
        # new attempt
        f = net.faults.at(self._site("connect"))
        if self.laddr is None or self.laddr[1] == 0:
            self.laddr = ("127.0.0.1", net.ephemeral(self))
        if f is not None:
            if f[0] == "refuse":
                self.state = "refused"
                return errno.EINPROGRESS
            if f[0] == "blackhole":
                self.state = "pending"
                self.blackholed = True
                return errno.EINPROGRESS
            if f[0] == "errno":      # the attempt fails with this code at the next call
                self.state = "failed"
                self.fail_code = f[1]
                return errno.EINPROGRESS
            if f[0] == "raise":
                raise _err(f[1])
        ip = "127.0.0.1" if host in ("0.0.0.0", "") else host
        lst = net.listeners.get((ip, port)) or net.listeners.get(("0.0.0.0", port))
        if lst is None or lst.closed or lst.state != "listening" or not net.reachable(host, port):
            self.state = "refused"
            net.log("connect-refused", self.sid, port)
            return errno.EINPROGRESS
        # create the server-side socket; the three-way handshake completes after `latency` net steps
        srv = SimSocket(net, lst.role, "tcp")
        srv.laddr = (lst.laddr[0] if lst.laddr[0] != "0.0.0.0" else ip, port)
        srv.raddr = self.laddr
        self.raddr = (ip, port)
        a, b = Pipe(net.cap), Pipe(net.cap)
        self.txpipe, srv.rxpipe = a, a
        srv.txpipe, self.rxpipe = b, b
        self.peer, srv.peer = srv, self
        srv.state = "established"
        srv.blocking = True
        srv.last_activity = net.now   # connection establishment starts the idle period
        self.state = "pending"
        self.blackholed = False
        self.pending_listener = lst
        self.pending_srv = srv
        if net.latency <= 0:
            self._complete()
        else:
            self.pending_steps = net.latency
            net.pending.append(self)
        return errno.EINPROGRESS

    def _complete(self):
        lst = self.pending_listener
        if lst.closed or lst.state != "listening":
            self.state = "refused"
            self.pending_srv.closed = True
            return
        lst.backlog.append(self.pending_srv)
        self.state = "connected0"

    def connect(self, addr):
        r = self.connect_ex(addr)
        if r not in (0, errno.EISCONN):
            raise _err(r)

    # -- data ----------------------------------------------------------------
    def send(self, data):
        self._check_open()
        return self._send(data, self.net.faults.at(self._site("send")))

    def _send(self, data, f):
        self._check_open()
        net = self.net
        data = bytes(data)
        if self.state not in ("established",):
            if self.state == "connected0":
                self.state = "established"
            else:
                raise _err(errno.ENOTCONN)
        if self.shut_wr:
            raise _err(errno.EPIPE)
        if f is not None:
            if f[0] == "eagain":
                raise _err(errno.EAGAIN)
            if f[0] == "errno":
                self.lost = f[1] in _HARD_LOSS
                raise _err(f[1])
        if self.got_rst:
            raise _err(errno.EPIPE)
        if self.peer_gone or self.peer is None or self.peer.closed:
            self.got_rst = True
            self.rxpipe.reset = True
            return len(data)
        if not data:
            return 0
        room = self.txpipe.cap - self.txpipe.used()
        if f is not None and f[0] == "partial":
            room = min(room, f[1])
            if room <= 0:
                return 0
        if room <= 0:
            raise _err(errno.EAGAIN)
        n = min(room, len(data))
        self.txpipe.push(data[:n])
        self.tx_chunks.append(n)
        self.last_activity = net.now
        if n < len(data):
            net.out_probe("partial-send")
        net.log("send", self.sid, n, len(data))
        return n

    def recv(self, bufsize):
        self._check_open()
        return self._recv(bufsize, self.net.faults.at(self._site("recv")))

    def _recv(self, bufsize, f):
        self._check_open()
        net = self.net
        if self.state not in ("established", "connected0"):
            raise _err(errno.ENOTCONN)
        if self.shut_rd:
            return b""
        if f is not None:
            if f[0] == "eagain":
                raise _err(errno.EAGAIN)
            if f[0] == "errno":
                self.lost = f[1] in _HARD_LOSS
                raise _err(f[1])
        p = self.rxpipe
        if p.reset:
            p.reset = False
            p.rx.clear()
            p.fin = True
            self.lost = True
            raise _err(errno.ECONNRESET)
        if p.rx:
            n = min(bufsize, len(p.rx))
            if f is not None and f[0] == "short":
                n = max(1, min(n, f[1]))
            data = bytes(p.rx[:n])
            del p.rx[:n]
            self.rx_chunks.append(data)
            self.last_activity = net.now
            net.log("recv", self.sid, n)
            return data
        if p.fin:
            return b""
        raise _err(errno.EAGAIN)

    def shutdown(self, how):
        self._check_open()
        if self.state == "listening":
            raise _err(errno.ENOTCONN)
        if self.state not in ("established", "connected0"):
            raise _err(errno.ENOTCONN)
        # measured on Linux loopback: once the peer's RST has arrived shutdown() fails with ENOTCONN every time; after the
        # peer's FIN the first shutdown() succeeds and a second one fails with ENOTCONN; on a healthy connection it may
        # be repeated
        if self.got_rst or (self.shut_wr and self.rxpipe is not None and self.rxpipe.fin):
            raise _err(errno.ENOTCONN)
        if how in (_real.SHUT_WR, _real.SHUT_RDWR) and not self.shut_wr:
            self.shut_wr = True
            if self.txpipe is not None:
                self.txpipe.inflight.append(FIN)
        if how in (_real.SHUT_RD, _real.SHUT_RDWR):
            self.shut_rd = True

    def close(self):
        if self.closed:
            return
        net = self.net
        self.closed = True
        self.close_time = net.now
        net.log("close", self.sid, self.role)
        if self.kind == "udp":
            if net.bound.get(("udp", self.laddr[1] if self.laddr else None)) is self:
                del net.bound[("udp", self.laddr[1])]
            return
        if self.state == "listening":
            if net.listeners.get((self.laddr[0], self.laddr[1])) is self:
                del net.listeners[(self.laddr[0], self.laddr[1])]
            for s in self.backlog:     # connections never accepted are reset
                s.close()
            return
        if self.state == "pending" and getattr(self, "pending_srv", None) is not None:
            self.pending_srv.closed = True
            if self in net.pending:
                net.pending.remove(self)
            return
        pr = self.peer
        if pr is not None and not pr.closed:
            unread = self.rxpipe is not None and (len(self.rxpipe.rx) > 0 or self.rxpipe.nflight > 0)
            if unread:   # closing with unread data aborts the connection
                pr.rxpipe.reset = True
                pr.got_rst = True
                net.out_probe("close-with-unread-rst")
            else:
                if not self.shut_wr and self.txpipe is not None:
                    self.txpipe.inflight.append(FIN)
                pr.peer_gone = True

    def abort(self):
        """Harness only: the process holding this socket dies / SO_LINGER 0 close -> RST."""
        if self.closed:
            return
        self.closed = True
        self.close_time = self.net.now
        self.net.log("abort", self.sid)
        pr = self.peer
        if pr is not None and not pr.closed and self.state in ("established", "connected0"):
            pr.rxpipe.reset = True
            pr.got_rst = True

    def vanish(self):
        """Harness only: the host holding this socket disappears without a packet (power off / partition)."""
        self.closed = True
        self.close_time = self.net.now
        self.net.log("vanish", self.sid)

    # -- UDP -----------------------------------------------------------------
    def sendto(self, data, addr):
        self._check_open()
        net = self.net
        f = net.faults.at(self._site("sendto"))
        if self.laddr is None:
            self.laddr = ("0.0.0.0", net.ephemeral(self))
            net.bound[("udp", self.laddr[1])] = self
        dest = (addr[0], addr[1])
        df = net.dest_fault(self, dest)
        if f is not None and f[0] == "errno":
            raise _err(f[1])
        if f is not None and f[0] == "eagain":
            raise _err(errno.EAGAIN)
        if df is not None:
            net.out_fault("sendto:dest-%s" % errno.errorcode.get(df, df))
            raise _err(df)
        n = len(data)
        if f is not None and f[0] == "partial":
            n = min(n, f[1])
        net.sent_dgrams.append((self.sid, dest, bytes(data[:n])))
        net.udp_inflight.append((self, dest, bytes(data[:n])))
        net.log("sendto", self.sid, dest, n)
        return n

    def recvfrom(self, bufsize):
        self._check_open()
        f = self.net.faults.at(self._site("recvfrom"))
        if f is not None:
            if f[0] == "eagain":
                raise _err(errno.EAGAIN)
            if f[0] == "errno":
                raise _err(f[1])
        if not self.dgrams:
            raise _err(errno.EAGAIN)
        data, src = self.dgrams.popleft()
        return data[:bufsize], src


class Net(object):
    def __init__(self, faults=None, out=None, cap=64, latency=0, eph=None, trace=None):
        self.out = out
        self.faults = Faults(faults, out)
        self.cap = cap
        self.latency = latency
        self.socks = []
        self.listeners = {}
        self.bound = {}
        self.pending = []
        self.sid = 0
        self.now = 0.0
        self.eph_pool = list(eph) if eph else None
        self.eph_next = 49152
        self.trace = trace
        self.down = set()         # ports currently unreachable
        self.udp_inflight = deque()
        self.sent_dgrams = []
        self.dest_faults = {}     # dest -> errno while failing
        self.dest_faults_once = {}  # dest -> errno for the next send to it only
        self.hosts = {}           # name -> ip for getaddrinfo

    # bookkeeping
    def _next_sid(self):
        self.sid += 1
        return self.sid

    def log(self, *ev):
        if self.trace is not None:
            self.trace.add("net", *ev)

    def out_probe(self, name):
        if self.out is not None:
            self.out.probe(name)

    def out_fault(self, name):
        if self.out is not None:
            self.out.fault(name)

    def reachable(self, host, port):
        return port not in self.down

    def dest_fault(self, sock, dest):
        if dest in self.dest_faults_once:       # reported once (an ICMP bounce): the next send to that destination goes through
            return self.dest_faults_once.pop(dest)
        return self.dest_faults.get(dest)

    def ephemeral(self, sock):
        if sock.fixed_port:
            return sock.fixed_port
        if self.eph_pool:
            inuse = set(s.laddr[1] for s in self.socks
                        if s is not sock and not s.closed and s.laddr is not None and s.role != "accepted")
            # a port is free again as soon as the socket that used it is closed — even if a server still
            # holds the other end of the dead connection: peer-address reuse
            for p in self.eph_pool:
                if p not in inuse:
                    self.eph_pool.remove(p)
                    self.eph_pool.append(p)
                    return p
            raise _err(errno.EADDRNOTAVAIL)
        self.eph_next += 1
        return self.eph_next

    # simulator-side actions
    def step_connects(self):
        """One network step for pending three-way handshakes."""
        for s in list(self.pending):
            if getattr(s, "blackholed", False):
                continue
            s.pending_steps -= 1
            if s.pending_steps <= 0:
                self.pending.remove(s)
                if not s.closed:
                    s._complete()

    def pipes(self):
        """All directions with something in flight, in creation order: [(writer socket, pipe)]."""
        res = []
        for s in self.socks:
            if s.kind == "tcp" and s.txpipe is not None and s.txpipe.pending():
                res.append((s, s.txpipe))
        return res

    def deliver_all(self):
        self.step_connects()
        n = 0
        for s, p in self.pipes():
            n += p.deliver(None)
        n += self.deliver_udp_all()
        return n

    def deliver_udp_all(self):
        n = 0
        while self.udp_inflight:
            self.deliver_udp(0)
            n += 1
        return n

    def deliver_udp(self, i=0, drop=False, dup=False):
        if not self.udp_inflight:
            return False
        i = i % len(self.udp_inflight)
        self.udp_inflight.rotate(-i)
        src, dest, data = self.udp_inflight.popleft()
        self.udp_inflight.rotate(i)
        if drop:
            self.out_fault("udp:drop")
            return True
        tgt = self.bound.get(("udp", dest[1]))
        if tgt is not None and not tgt.closed:
            srcaddr = ("127.0.0.1" if src.laddr[0] == "0.0.0.0" else src.laddr[0], src.laddr[1])
            tgt.dgrams.append((data, srcaddr))
            if dup:
                self.out_fault("udp:dup")
                tgt.dgrams.append((data, srcaddr))
        return True

    def quiesce_faults(self):
        self.faults.enabled = False
        self.down.clear()
        self.dest_faults.clear()
        self.dest_faults_once.clear()
        for s in self.pending:
            if getattr(s, "blackholed", False):
                s.blackholed = False
                s.pending_steps = self.latency

    def module(self, role):
        return SimSocketModule(self, role)


class SimSocketModule(object):
    """Stands in for the `socket` module inside one ioflo module."""

    def __init__(self, net, role):
        self._net = net
        self._role = role
        for name in dir(_real):
            if name.isupper() and (name.startswith(("AF_", "SOCK_", "SOL_", "SO_", "SHUT_", "IPPROTO_", "AI_", "EAI_",
                                                     "TCP_", "MSG_", "INADDR_"))):
                setattr(self, name, getattr(_real, name))
        self.error = OSError
        self.gaierror = _real.gaierror
        self.herror = _real.herror
        self.timeout = _real.timeout

    def socket(self, family=_real.AF_INET, type=_real.SOCK_STREAM, proto=0):
        kind = "udp" if type == _real.SOCK_DGRAM else "tcp"
        return SimSocket(self._net, self._role, kind)

    def getaddrinfo(self, host, port, family=0, type=0, proto=0, flags=0):
        net = self._net
        if family == _real.AF_INET6:
            raise _real.gaierror(_real.EAI_NONAME, "sim: no ipv6")
        ip = None
        if host in net.hosts:
            ip = net.hosts[host]
        elif host == "localhost":
            ip = "127.0.0.1"
        else:
            parts = host.split(".") if isinstance(host, str) else []
            if len(parts) == 4 and all(p.isdigit() and int(p) < 256 for p in parts):
                ip = host
        if ip is None:
            raise _real.gaierror(_real.EAI_NONAME, "sim: unknown host %r" % (host,))
        return [(_real.AF_INET, type or _real.SOCK_STREAM, proto, "", (ip, port or 0))]

    def gethostname(self):
        return "simhost"

    def inet_aton(self, s):
        return _real.inet_aton(s)
