#!/venv/bin/python
"""Workflow helper for seeded changes (changes to ioflo that break one property while the pinned suite
still passes, written by independent sub-agents).

  tools/seeded.py adopt <id> <property> <agent-worktree>   copy patch.diff / demo.py / notes.md into seeded/<id>/
  tools/seeded.py verify <id>      fresh scratch worktree under /tmp: demo must pass without the patch, fail with it;
                                   the pinned suite must give the same pass set with it; worktree removed
  tools/seeded.py run <id> [quick|thorough] [PID ...]
                                   git -C /repo apply; run the named checks (default: the property's own);
                                   git -C /repo checkout -- . ; result recorded in seeded/<id>/meta.json
"""
import json
import os
import shutil
import subprocess
import sys
import time

VERIF = os.path.dirname(os.path.dirname(os.path.abspath(__file__)))
PY = "/venv/bin/python"


def sh(cmd, **k):
    return subprocess.run(cmd, shell=isinstance(cmd, str), capture_output=True, text=True, **k)


def meta_path(i):
    return os.path.join(VERIF, "seeded", i, "meta.json")


def load(i):
    p = meta_path(i)
    return json.load(open(p)) if os.path.exists(p) else {}


def save(i, m):
    json.dump(m, open(meta_path(i), "w"), indent=1, sort_keys=True)


def related(i):
    """Checks whose property is anchored in a file the patch touches (for controls: all of them must stay silent)."""
    import re
    files = set(re.findall(r"^\+\+\+ b/(\S+)", open(os.path.join(VERIF, "seeded", i, "patch.diff")).read(), re.M))
    claimed = set(os.path.basename(p)[:3].upper() for p in os.listdir(os.path.join(VERIF, "checks")) if re.match(r"c\d\d\.py$", p))
    out = []
    for l in open(os.path.join(VERIF, "properties.jsonl")):
        pr = json.loads(l)
        if pr["id"] in claimed and files & set(pr["anchors"]["files"]):
            out.append(pr["id"])
    return out


def adopt(i, pid, wt):
    d = os.path.join(VERIF, "seeded", i)
    os.makedirs(d, exist_ok=True)
    for f in ("patch.diff", "demo.py", "notes.md"):
        src = os.path.join(wt, "_seeded", f)
        if os.path.exists(src):
            shutil.copy(src, os.path.join(d, f))
    m = load(i)
    m.update({"property": pid, "source": "independent sub-agent given only the property text and a scratch worktree"})
    if i.startswith("n-"):
        m["kind"] = "control"   # a change under which the property still holds: every related check must stay silent
    save(i, m)


def suite(cwd):
    junit = os.path.join(cwd, "_junit.xml")
    r = sh(["flock", "/tmp/ioflo-suite.lock", PY, "-m", "pytest", "-q", "-p", "no:cacheprovider", "--timeout=900", "--continue-on-collection-errors", "--junitxml=" + junit], cwd=cwd, timeout=3000)
    import xml.etree.ElementTree as ET
    passed = set()
    try:
        for tc in ET.parse(junit).getroot().iter("testcase"):
            if not list(tc):
                passed.add(tc.get("classname") + "::" + tc.get("name"))
    except Exception as ex:
        return None, str(ex) + r.stdout[-300:]
    os.unlink(junit)
    return passed, r.stdout.strip().splitlines()[-1]


def verify(i):
    d = os.path.join(VERIF, "seeded", i)
    wt = "/tmp/sv-" + i
    sh(["git", "-C", "/repo", "worktree", "remove", "--force", wt])
    r = sh(["git", "-C", "/repo", "worktree", "add", "--detach", wt, "HEAD"])
    assert r.returncode == 0, r.stderr
    m = load(i)
    try:
        env = dict(os.environ, PYTHONPATH=wt)
        demo = os.path.join(d, "demo.py")
        text = open(demo).read()
        r0 = sh([PY, "-W", "ignore", demo], cwd=wt, env=env, timeout=600)
        a = sh(["git", "-C", wt, "apply", os.path.join(d, "patch.diff")])
        assert a.returncode == 0, a.stderr
        r1 = sh([PY, "-W", "ignore", demo], cwd=wt, env=env, timeout=600)
        base = set(json.load(open("/root/.vp/BASELINE.json"))["stable_pass"])
        passed, last = suite(wt)
        lost = sorted(base - passed) if passed is not None else ["<suite did not run>"]
        m["verified"] = {"demo_rc_without_patch": r0.returncode, "demo_rc_with_patch": r1.returncode, "suite_last_line": last,
                         "baseline_tests_no_longer_passing": lost, "demo_tail_with_patch": r1.stdout[-400:],
                         "ran": "git worktree add %s HEAD; demo.py; git apply patch.diff; demo.py; pinned pytest command; worktree removed" % wt,
                         "hardcoded_worktree_in_demo": "/tmp/wt-" in text}
        if m.get("kind") == "control":
            ok = r0.returncode == 0 and r1.returncode == 0 and not lost
        else:
            ok = r0.returncode == 0 and r1.returncode != 0 and not lost
        m["confirmed"] = ok
        print(i, "CONFIRMED" if ok else "NOT CONFIRMED", json.dumps(m["verified"], indent=1)[:1500])
    finally:
        sh(["git", "-C", "/repo", "worktree", "remove", "--force", wt])
        shutil.rmtree(wt, ignore_errors=True)
        save(i, m)


def run(i, tier, pids):
    d = os.path.join(VERIF, "seeded", i)
    m = load(i)
    pids = pids or (sorted(set([m["property"]] + related(i))) if m.get("kind") == "control" else [m["property"]])
    st = sh(["git", "-C", "/repo", "status", "--porcelain", "--untracked-files=no"]).stdout.strip()
    assert not st, "/repo not clean: " + st
    a = sh(["git", "-C", "/repo", "apply", os.path.join(d, "patch.diff")])
    assert a.returncode == 0, a.stderr
    res = m.setdefault("checks", {})
    try:
        for pid in pids:
            t0 = time.time()
            r = sh([os.path.join(VERIF, "bin", "check"), pid, "--tier", tier], cwd=VERIF, env=dict(os.environ, VERIF_NO_EVIDENCE="1"), timeout=7200)
            lines = [l[:600] for l in r.stdout.splitlines() if l.startswith(("VIOLATION", "HARNESS", "  kind", "KNOWN", "  detail"))][:8]
            res["%s/%s" % (pid, tier)] = {"rc": r.returncode, "wall_s": round(time.time() - t0, 1), "lines": lines}
            print(i, pid, tier, "rc=%d" % r.returncode, lines[:2])
    finally:
        sh(["git", "-C", "/repo", "checkout", "--", "."])
        own = res.get("%s/%s" % (m["property"], tier))
        if m.get("kind") == "control":
            alarms = sorted(k for k, v in res.items() if k.endswith("/" + tier) and v["rc"] != 0)
            m[tier] = "silent" if not alarms else "ALARM: " + ", ".join(alarms)
        elif own:
            m[tier] = "caught" if own["rc"] == 1 else ("missed" if own["rc"] == 0 else "harness-error")
        m["caught_by"] = ", ".join(sorted(set(k.split("/")[0] + " (" + k.split("/")[1] + ")" for k, v in res.items() if v["rc"] == 1)))
        save(i, m)


def pre(i, tier, pids):
    """Preliminary: the same as run but against a scratch copy (VERIF_REPO) instead of /repo; nothing recorded."""
    d = os.path.join(VERIF, "seeded", i)
    m = load(i)
    pids = pids or (sorted(set([m["property"]] + related(i))) if m.get("kind") == "control" else [m["property"]])
    tmp = "/tmp/sc-" + i
    shutil.rmtree(tmp, ignore_errors=True)
    os.makedirs(tmp)
    try:
        # committed HEAD, not the working tree: a formal 'run' may have a patch applied to /repo at the same time
        r = sh("git -C /repo archive HEAD ioflo | tar -x -C %s" % tmp)
        assert r.returncode == 0, r.stderr
        a = sh(["patch", "-p1", "-s", "-d", tmp, "-i", os.path.join(d, "patch.diff")])
        assert a.returncode == 0, a.stdout + a.stderr
        for pid in pids:
            r = sh([os.path.join(VERIF, "bin", "check"), pid, "--tier", tier], cwd=VERIF, env=dict(os.environ, VERIF_REPO=tmp, VERIF_NO_EVIDENCE="1"), timeout=7200)
            lines = [l for l in r.stdout.splitlines() if l.startswith(("VIOLATION", "HARNESS", "  kind", "KNOWN"))][:6]
            print(i, pid, tier, "rc=%d" % r.returncode, lines[:4], r.stdout.strip().splitlines()[-1][:200])
    finally:
        shutil.rmtree(tmp, ignore_errors=True)


if __name__ == "__main__":
    cmd = sys.argv[1]
    if cmd == "adopt":
        adopt(sys.argv[2], sys.argv[3], sys.argv[4])
    elif cmd == "verify":
        verify(sys.argv[2])
    elif cmd in ("run", "pre"):
        tier = sys.argv[3] if len(sys.argv) > 3 and sys.argv[3] in ("quick", "thorough") else "quick"
        (run if cmd == "run" else pre)(sys.argv[2], tier, [a for a in sys.argv[3:] if a not in ("quick", "thorough")])
