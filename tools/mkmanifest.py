#!/venv/bin/python
"""Regenerates MANIFEST.json from the check modules present under checks/ (run from /verif)."""
import glob
import importlib
import json
import os
import sys

sys.path.insert(0, os.path.dirname(os.path.dirname(os.path.abspath(__file__))))
import simkit  # noqa

NA = {
    "C01": "import behaviour of a fresh interpreter: no schedule, clock, I/O result or cut point; decided by spawning interpreters, which is not simulation",
    "C13": "metamorphic property of the builder on script text alone (renaming); no schedule, clock, fault or interleaving involved",
    "C14": "total-function property of the builder over input scripts; input generation only, nothing for a simulator to control",
    "C15": "permutation of clauses in script text; pure function of the input script",
    "C16": "layout transformations of script text; pure function of the input script",
    "C17": "literal conversion is a pure function of the literal and its context",
    "C18": "sequential operations on an in-memory tree with no clock, schedule or fault in it",
    "C21": "evaluation of one comparison need is a pure function of state, goal and tolerance",
    "C37": "sequential map operations on a stack's remote indexes; no schedule, clock or I/O result",
    "C39": "sequential container operations; no schedule, clock, I/O or fault",
    "C40": "pure codec functions (the statement itself asks for exhaustive enumeration and a formal proof)",
    "C41": "pure checksum functions of a byte string",
    "C43": "pure arithmetic function of angle and wrap",
    "C44": "pure geometry predicates of polygon and point",
    "C45": "arbiter output is a pure function of its inputs' selection, truth, importance and value",
    "C46": "the decisive quantifier is numeric inputs including non-finite ones; the time lapse is just another input",
    "C47": "sequential registry calls; the only nondeterminism (a random suffix) is not what the statement is about",
}

TECH = "deterministic simulation with fault injection: seeded search over schedules and fault tables, "


def main():
    checks = []
    engines = {}
    for path in sorted(glob.glob("checks/c[0-9][0-9].py")):
        mod = importlib.import_module("checks." + os.path.basename(path)[:-3])
        c = mod.CHECK
        checks.append({
            "property_id": c.pid,
            "quick_cmd": "bin/check %s --tier quick" % c.pid,
            "thorough_cmd": "bin/check %s --tier thorough" % c.pid,
            "evidence_file": "evidence/%s.json" % c.pid,
            "replay_cmd_template": "bin/check %s --replay {path}" % c.pid,
            "engine": c.engine,
            "level_claimed": {"category": c.level, "text": c.level_text if hasattr(c, "level_text") else c.rule,
                              "design_ref": c.design_ref},
            "level_note": "; ".join(c.assumptions) or "simulator substrate is the trusted base",
            "technique": TECH + (getattr(c, "technique", "") or "oracle on the recorded history / reference model"),
        })
        engines.setdefault(c.engine, []).append(c.pid)
    claimed = set(c["property_id"] for c in checks)
    props = [json.loads(l)["id"] for l in open("properties.jsonl")]
    na = []
    for p in props:
        if p in claimed:
            continue
        na.append({"property_id": p, "reason": NA.get(p, "check not built yet: not claimed in this revision (see DESIGN.md build order)")})
    man = {
        "version": 1,
        "setup_cmd": "/venv/bin/python -c \"import hypothesis\" 2>/dev/null || /venv/bin/pip install --no-index --find-links /opt/veriftools/wheels hypothesis; /venv/bin/python -m compileall -q simkit substrate netharn flosim logsim checks >/dev/null; true",
        "hooks": {"guard": "IOFLO_VERIF", "enable": "no hooks: every seam is a module attribute, constructor parameter or object wrapper (DESIGN.md §2.2)",
                  "baseline_off_cmd": "cd /repo && /venv/bin/python -m pytest -ra -q -p no:cacheprovider --timeout=900 --continue-on-collection-errors",
                  "source_commits": [], "add_only": True},
        "engines": [{"name": k, "path": "checks/", "serves_properties": v, "kind_free_text": "deterministic simulation"} for k, v in sorted(engines.items())],
        "checks": checks,
        "not_applicable": na,
        "notes": "bin/check exits 0 held / 1 VIOLATION / 2 HARNESS-ERROR. known_findings.json is read-only at run time.",
    }
    with open("MANIFEST.json", "w") as f:
        json.dump(man, f, indent=1)
    print("claimed", sorted(claimed))


main()
