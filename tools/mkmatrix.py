#!/venv/bin/python
"""Rewrites DESIGN.md §12 (between the MATRIX markers) from selftest/sensitivity.json and seeded/*/meta.json."""
import glob
import json
import os
import re

VERIF = os.path.dirname(os.path.dirname(os.path.abspath(__file__)))
BEGIN, END = "<!-- MATRIX-BEGIN -->", "<!-- MATRIX-END -->"


def main():
    sens = json.load(open(os.path.join(VERIF, "selftest", "sensitivity.json")))
    rows = ["### 12.1 Own mutants (`selftest/mutants.py`, applied to a scratch copy of `/repo`, quick tier)", "",
            "| property | mutant | expected | quick tier | first signature reported |", "|---|---|---|---|---|"]
    for r in sorted(sens, key=lambda r: (r["pid"], r["name"])):
        sig = ""
        for l in r.get("lines", []):
            m = re.search(r"signature=(.*)", l)
            if m:
                sig = m.group(1)[:90].replace("|", "\\|")
                break
        rows.append("| %s | %s | %s | %s | %s |" % (r["pid"], r["name"], "silent (control)" if r["want"] == 0 else "violation",
                                                     "as expected" if r["result"] == "ok" else "**" + r["result"] + "**", sig))
    rows += ["", "### 12.2 Changes written by independent sub-agents (`seeded/<id>/`)", "",
             "Each was written by a fresh agent that saw only the property text and a scratch worktree of `/repo`, was confirmed by hand "
             "(suite still passes, demonstration fails with the patch and passes without) and then applied to `/repo`, the registered "
             "checks run, and reverted.", "",
             "| seeded change | property | what it needs to manifest | quick | thorough | checks that report it |", "|---|---|---|---|---|---|"]
    metas = [(mp, json.load(open(mp))) for mp in sorted(glob.glob(os.path.join(VERIF, "seeded", "*", "meta.json")))]
    for mp, m in metas:
        if m.get("kind") == "control":
            continue
        rows.append("| %s | %s | %s | %s | %s | %s |" % (os.path.basename(os.path.dirname(mp)), m.get("property"), m.get("needs", "").replace("|", "\\|"),
                                                         m.get("quick", "?"), m.get("thorough", "?"), m.get("caught_by", "")))
    rows += ["", "### 12.4 Control changes: property-preserving changes written by independent sub-agents (`seeded/n-*/`)", "",
             "Each was written by a fresh agent that saw only the property text and a scratch worktree, and was asked for a realistic "
             "maintenance change to the anchored code (refactoring, different internal data structure, reordering of things the statement "
             "does not order, different timing where the statement allows it) under which the property still holds. Confirmed by hand "
             "(suite passes, the agent's demonstration passes with and without the patch), then every check whose property is anchored in "
             "a touched file was run with the patch applied: all must stay silent.", "",
             "The final record: the property's own check applied in `/repo` (git apply, check, git checkout), every other related check "
             "on a scratch copy of HEAD with the patch applied (`tools/seeded.py pre`; results kept in meta.json `scratch_checks`).", "",
             "| control change | property | what it changes | run in /repo | run on a scratch copy | quick |", "|---|---|---|---|---|---|"]
    for mp, m in metas:
        if m.get("kind") != "control":
            continue
        ran = sorted(set(k.split("/")[0] for k in m.get("checks", {})))
        sc = m.get("scratch_checks", {})
        alarms = sorted(k for k, v in sc.items() if v["rc"] != 0)
        status = m.get("quick", "?")
        if status == "silent" and alarms:
            status = "ALARM on a scratch copy: " + ", ".join(alarms)
        rows.append("| %s | %s | %s | %s | %s | %s |" % (os.path.basename(os.path.dirname(mp)), m.get("property"), m.get("what", "").replace("|", "\\|"),
                                                        " ".join(ran), " ".join(sorted(sc)), status))
    p = os.path.join(VERIF, "DESIGN.md")
    s = open(p).read()
    a, b = s.index(BEGIN) + len(BEGIN), s.index(END)
    s = s[:a] + "\n" + "\n".join(rows) + "\n" + s[b:]
    open(p, "w").write(s)


if __name__ == "__main__":
    main()
