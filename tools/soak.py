#!/venv/bin/python
"""Soak: run every registered check at one tier under a range of VERIF_SEED values and collect anything that is not
'exit 0, no VIOLATION line'.  Evidence files are not touched (VERIF_NO_EVIDENCE).  Results go to the file named by
--out (default soak-<tier>.json in the current directory), one entry per (seed, property).

  tools/soak.py --tier quick --seeds 1:40 [--props C24,C25] [--out FILE]
"""
import argparse
import glob
import json
import os
import subprocess
import sys
import time

VERIF = os.path.dirname(os.path.dirname(os.path.abspath(__file__)))


def main():
    ap = argparse.ArgumentParser()
    ap.add_argument("--tier", default="quick")
    ap.add_argument("--seeds", default="1:20")
    ap.add_argument("--props", default="")
    ap.add_argument("--out", default=None)
    ap.add_argument("--runs", type=int, default=0)
    a = ap.parse_args()
    lo, hi = (int(x) for x in a.seeds.split(":"))
    props = [p for p in a.props.split(",") if p] or sorted(os.path.basename(p)[1:3] for p in glob.glob(os.path.join(VERIF, "checks", "c[0-9][0-9].py")))
    props = [p if p.startswith("C") else "C" + p for p in props]
    outp = a.out or "soak-%s.json" % a.tier
    res = []
    bad = 0
    for seed in range(lo, hi):
        for pid in props:
            t0 = time.time()
            env = dict(os.environ, VERIF_SEED=str(seed), VERIF_NO_EVIDENCE="1")
            cmd = [os.path.join(VERIF, "bin", "check"), pid, "--tier", a.tier]
            if a.runs:
                cmd += ["--runs", str(a.runs)]
            r = subprocess.run(cmd, capture_output=True, text=True, env=env)
            lines = [l for l in r.stdout.splitlines() if l.startswith(("VIOLATION", "HARNESS", "  kind", "  detail", "COVERAGE"))]
            e = {"seed": seed, "property": pid, "rc": r.returncode, "wall_s": round(time.time() - t0, 1), "lines": [l[:1500] for l in lines[:12]],
                 "summary": (r.stdout.strip().splitlines() or [""])[-1][:300]}
            if r.returncode != 0 or lines:
                bad += 1
                print("ATTENTION seed=%d %s rc=%d %s" % (seed, pid, r.returncode, lines[:3]), flush=True)
                # keep the replay files of a soak finding next to the results
                for l in lines:
                    if l.startswith("VIOLATION property=") and "replay=" in l:
                        p = l.split("replay=")[1].strip()
                        if os.path.exists(p):
                            d = os.path.join(os.path.dirname(os.path.abspath(outp)), "soak-replays")
                            os.makedirs(d, exist_ok=True)
                            subprocess.run(["cp", p, d])
            res.append(e)
            with open(outp, "w") as f:
                json.dump(res, f, indent=1)
        print("seed %d done, attention so far %d" % (seed, bad), flush=True)
    print("SOAK tier=%s seeds=%s checks=%d runs=%d attention=%d" % (a.tier, a.seeds, len(props), len(res), bad))
    return 1 if bad else 0


if __name__ == "__main__":
    sys.exit(main())
