"""AST -> FloScript text.  The AST is plain JSON-able data (it is part of the replay plan).

program = {"house": "h", "framers": [framer...], "inits": [[path, value]...]}
framer  = {"name", "sched": active|inactive|aux|slave|moot, "order": front|mid|back|None, "period": p|None,
           "first": frame name|None, "frames": [frame...]}
frame   = {"name", "over": name|None, "acts": [act...]}        (frames are emitted in list order)
act     = {"k": kind, "ctx": context (for context-sensitive verbs), ...}
"""
CTX_VERBS = ("enter", "recur", "exit", "precur", "renter", "rexit", "benter")


def lit(v):
    if isinstance(v, bool):
        return "true" if v else "false"
    if v is None:
        return "none"
    if isinstance(v, str):
        return '"%s"' % v
    if isinstance(v, float):
        return repr(v)
    return str(v)


def need_text(n):
    neg = "not " if n.get("neg") else ""
    t = n["t"]
    if t == "cmp":
        s = "%s%s %s %s" % ((n["field"] + " in ") if n.get("field") else "", n["path"], n["op"], lit(n["goal"]))
        if n.get("tol") is not None:
            s += " +- %s" % lit(n["tol"])
        return neg + s
    if t == "bool":
        return neg + n["path"]
    if t in ("elapsed", "recurred"):
        return neg + "%s %s %s" % (t, n["op"], n["goal"] if isinstance(n["goal"], str) else lit(n["goal"]))
    if t == "done":
        return neg + "%s is done" % n["who"]
    if t == "status":
        return neg + "%s is %s" % (n["who"], n["status"])
    if t == "auxdone":
        sel = n["sel"]
        s = sel if sel in ("any", "all") else "aux %s" % sel
        if n.get("frame"):
            s += " in frame %s" % n["frame"]
        return neg + s + " is done"
    if t in ("updated", "changed"):
        s = "%s is %s" % (n["path"], t)
        if n.get("frame") is not None:
            s += " in frame" + (" %s" % n["frame"] if n["frame"] else "")
        if n.get("by"):
            s += " by %s" % n["by"]
        return neg + s
    raise ValueError(t)


def needs_text(needs):
    return " and ".join(need_text(n) for n in needs)


def act_lines(a):
    """Returns (context or None, text)."""
    k = a["k"]
    if k == "rec":
        return a["ctx"], 'do verif rec with tag "%s"' % a["tag"]
    if k == "env":
        return a["ctx"], "do verif env with eid %d" % a["eid"]
    if k == "go":
        s = "go %s" % a["far"]
        if a.get("needs"):
            s += " if " + needs_text(a["needs"])
        return None, s
    if k == "let":
        return None, "let me if " + needs_text(a["needs"])
    if k == "timeout":
        return None, "timeout %s" % (a["v"] if isinstance(a["v"], str) else lit(a["v"]))
    if k == "repeat":
        return None, "repeat %d" % a["n"]
    if k == "aux":
        s = "aux %s" % a["name"]
        if a.get("as"):
            s += " as %s" % a["as"]
        if a.get("needs"):
            s += " if " + needs_text(a["needs"])
        return None, s
    if k == "done":
        return a["ctx"], "done" + (" " + " ".join(a["who"]) if a.get("who") else "")
    if k == "bid":
        s = "bid %s %s" % (a["control"], " ".join(a["who"]))
        if a.get("period") is not None:
            s += " at %s" % (a["period"] if isinstance(a["period"], str) else lit(a["period"]))
        return a["ctx"], s
    if k == "fiat":
        return a["ctx"], "%s %s" % (a["control"], a["who"])
    if k == "put":
        return a["ctx"], "put %s into %s" % (lit(a["v"]), a["path"])
    if k == "inc":
        return a["ctx"], "inc %s with %s" % (a["path"], lit(a["v"]))
    if k == "copy":
        return a["ctx"], "copy %s into %s" % (a["src"], a["path"])
    if k == "copyf":     # several fields at once, positionally
        return a["ctx"], "copy %s in %s into %s in %s" % (" ".join(a["sf"]), a["src"], " ".join(a["df"]), a["path"])
    if k == "set":
        return a["ctx"], "set %s with %s" % (a["path"], lit(a["v"]))
    if k == "rear":
        s = "rear %s" % a["name"]
        if a.get("as"):
            s += " as %s" % a["as"]
        s += " be aux in frame %s" % a["frame"]
        return a["ctx"], s
    if k == "raze":
        return a["ctx"], "raze %s in frame %s" % (a.get("who", "all"), a["frame"])
    if k == "raw":
        return a.get("ctx"), a["text"]
    raise ValueError(k)


def emit(program):
    out = ["house %s" % program.get("house", "h"), ""]
    for path, value in program.get("inits", []):
        if isinstance(value, dict):
            out.append("  init %s with %s" % (path, " ".join("%s %s" % (k, lit(v)) for k, v in value.items())))
        else:
            out.append("  init %s with %s" % (path, lit(value)))
    for fr in program["framers"]:
        s = "  framer %s be %s" % (fr["name"], fr.get("sched", "active"))
        if fr.get("order"):
            s += " in %s" % fr["order"]
        if fr.get("period") is not None:
            s += " at %s" % (fr["period"] if isinstance(fr["period"], str) else lit(fr["period"]))
        if fr.get("first"):
            s += " first %s" % fr["first"]
        out.append(s)
        for f in fr["frames"]:
            s = "    frame %s" % f["name"]
            if f.get("over"):
                s += " in %s" % f["over"]
            out.append(s)
            if f.get("next"):
                out.append("      next %s" % f["next"])
            if f.get("under"):
                out.append("      under %s" % f["under"])
            cur = "native"
            for a in f["acts"]:
                ctx, text = act_lines(a)
                want = ctx if ctx is not None else "native"
                if ctx is not None and want != cur:
                    out.append("      %s" % want)
                    cur = want
                out.append("        %s" % text)
        for line in fr.get("tail", []):
            out.append("    " + line)
        out.append("")
    for line in program.get("tail", []):
        out.append("  " + line)
    return "\n".join(out) + "\n"
