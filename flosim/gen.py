"""Seeded generator of well-formed FloScript programs (AST first, text by flosim.lang.emit).

Every Rec tag is unique, every value written by Env is unique, so each observation is
attributable to one cause.  `cfg` biases the features a check cares about.
"""
from fractions import Fraction

SHARES = [".sim.x0", ".sim.x1", ".sim.x2", ".sim.x3"]


def dec(x):
    """Exact decimal text of a Fraction whose denominator divides a power of ten (0.3, 1.25, 2.0)."""
    x = Fraction(x)
    for places in range(0, 12):
        if (x * 10 ** places).denominator == 1:
            n = int(x * 10 ** places)
            s = str(abs(n)).rjust(places + 1, "0")
            text = (s[:-places] + "." + s[-places:]) if places else s + ".0"
            return ("-" if n < 0 else "") + text
    raise ValueError(x)

DEFAULT = {
    "nmain": (1, 3), "nframes": (1, 6), "depth": 3, "p_child": 0.55, "p_under": 0.15,
    "p_go": 0.75, "p_let": 0.2, "p_timeout": 0.15, "p_repeat": 0.15, "p_poke": 0.3, "p_ctx_extra": 0.3,
    "naux": (0, 2), "p_aux": 0.25, "p_caux": 0.2, "p_done": 0.5, "nslaves": (0, 1), "p_fiat": 0.3, "p_bid": 0.15,
    "p_marker": 0.0, "p_env": 0.8, "ticks": (6, 30), "periods": ["0.125", "0.25", "0.0625"], "p_status_need": 0.1,
    "p_inactive": 0.2, "p_period": 0.2, "go_targets": "any", "p_auxdone": 0.0, "p_done_named": 0.0,
    "p_copyf": 0.0,          # probability (per context of a frame) of a multi-field 'copy f.. in S into g.. in T' between the two
                             # three-field shares, S and T possibly the same share, with needs reading single fields
    "p_susp_sibling": 0.0,   # probability of a sub-forest M > S > {a, b} whose M owns a conditional auxiliary and, declared before it,
                             # a transition to b: taken while a is active and suspended, S is a suspended shared ancestor
    "p_go_early": 0.0,       # probability that a frame's first transition is declared before its auxiliary clauses (it then still
                             # fires while a conditional auxiliary of that frame suspends the frames below)
    "p_go_me_parent": 0.0,   # probability that a frame with children gets a periodic forced re-entry ('go me if recurred >= k')
    "p_auxdone_named": 0.0,  # probability of a watcher transition on 'aux A in frame X is done' placed in a frame other than X
    "p_slave_order": 0.0,  # probability that a slave framer is declared with an explicit 'in front' / 'in back'
    "p_env_field": 0.0,  # probability that an environment write goes to a field other than 'value' (a field added since a snapshot)
    "p_abort_end": 0.0,  # probability that the clock framer ends the run with 'bid abort all' instead of stopping the framers first
    "p_staged": 0.0,     # probability of a master framer walking a slave through a drawn sequence of fiats, one per frame
}


def cfg_with(**kw):
    c = dict(DEFAULT)
    c.update(kw)
    return c


_SWARM_P = [0.0, 0.05, 0.15, 0.3, 0.5, 0.8]
_SWARM_RANGES = {"nmain": [(1, 1), (1, 3), (2, 4)], "nframes": [(1, 3), (1, 6), (2, 7), (4, 9)], "naux": [(0, 0), (0, 2), (1, 2), (1, 3)],
                 "nslaves": [(0, 0), (0, 1), (1, 2)], "ticks": [(4, 12), (6, 30), (20, 60)]}


def swarm_cfg(g, base):
    """Swarm-style variation of a check's own configuration (thorough tier): every run first draws which knobs keep the
    check's value and which are re-drawn from a coarse grid, so feature combinations no single fixed configuration produces
    (markers with conditional auxiliaries, named done verbs with staged slaves, deep forests with many auxiliaries, long
    runs of tiny programs ...) are explored as well.  Tick periods are never changed: binary-exact periods are a stated
    assumption of every check but C11."""
    c = dict(base)
    for k, v in base.items():
        if k.startswith("p_") and isinstance(v, float) and g.random() < 0.4:
            c[k] = g.choice(_SWARM_P)
    for k, choices in _SWARM_RANGES.items():
        if g.random() < 0.4:
            c[k] = g.choice(choices)
    if g.random() < 0.3:
        c["depth"] = g.choice([1, 2, 3, 4, 5])
    if g.random() < 0.2:
        c["go_targets"] = g.choice(["any", "names"])
    return c


def _cmp_need(g, neg_ok=True):
    n = {"t": "cmp", "path": g.choice(SHARES), "op": g.choice(["==", "!=", "<", "<=", ">=", ">"]), "goal": g.randint(0, 4)}
    if neg_ok and g.random() < 0.15:
        n["neg"] = True
    return n


PAIRS = [".sim.pair", ".sim.duo"]


def _need(g, cfg, framer_names, P, allow_marker=True, aux_names=()):
    if cfg.get("p_copyf", 0.0) and g.random() < 0.25:
        return {"t": "cmp", "path": g.choice(PAIRS), "field": g.choice("abc"), "op": g.choice(["==", "!=", "<", ">="]), "goal": g.randint(0, 4)}
    r = g.random()
    if allow_marker and r < cfg["p_marker"]:
        n = {"t": g.choice(["updated", "changed"]), "path": g.choice(SHARES)}
        fr = g.random()
        if fr < 0.4:
            n["frame"] = ""          # 'in frame' (me)
        elif fr < 0.5:
            n["frame"] = None
        if g.random() < 0.4:
            n["by"] = g.choice(["m1", "m2"])
        if "frame" not in n:
            n["frame"] = None
        return n
    if aux_names and g.random() < cfg["p_auxdone"]:
        if g.random() < 0.6:
            return {"t": "auxdone", "sel": g.choice(["any", "all"]), "neg": g.random() < 0.3}
        return {"t": "done", "who": g.choice(aux_names), "neg": g.random() < 0.3}
    if r < 0.55:
        return _cmp_need(g)
    if r < 0.75:
        k = g.randint(0, 6)
        return {"t": "elapsed", "op": g.choice([">=", ">=", ">", "=="]), "goal": dec(k * Fraction(P))}
    if r < 0.9:
        return {"t": "recurred", "op": g.choice([">=", ">=", "==", ">"]), "goal": g.randint(0, 5)}
    if framer_names and g.random() < cfg["p_status_need"] * 5:
        return {"t": "status", "who": g.choice(framer_names), "status": g.choice(["running", "started", "stopped", "aborted", "readied"])}
    return _cmp_need(g)


def _frames(g, cfg, prefix, framer_names, P, aux_names, slave_names, is_aux=False, all_tasks=()):
    lo, hi = cfg["nframes"]
    n = g.randint(lo, hi) if not is_aux else g.randint(min(lo, 3), min(hi, 3))
    frames = []
    depth = {}
    for i in range(n):
        name = "%s%s" % (prefix, "abcdefghij"[i])
        over = None
        if i > 0 and g.random() < cfg["p_child"]:
            cands = [f["name"] for f in frames if depth[f["name"]] < cfg["depth"] - 1]
            if cands:
                over = g.choice(cands)
        depth[name] = 0 if over is None else depth[over] + 1
        frames.append({"name": name, "over": over, "acts": []})
    if len(frames) > 1 and cfg.get("p_shuffle_decl", 0.15):
        # Declaration order is free in FloScript (a frame may name an over frame that is declared later); it decides 'next',
        # the default primary child and the order in which the builder traces outlines.  The decision and the permutation
        # come from a side generator seeded by the main generator's *state* (not by drawing from it), so that the programs
        # of runs that are not shuffled stay exactly what they were before this knob existed.
        import hashlib
        import random as _random
        side = _random.Random(int(hashlib.sha256(repr(g.getstate()).encode()).hexdigest()[:16], 16))
        if side.random() < cfg.get("p_shuffle_decl", 0.15):
            side.shuffle(frames)
    names = [f["name"] for f in frames]
    kids = {}
    for f in frames:
        if f["over"]:
            kids.setdefault(f["over"], []).append(f["name"])
    for f in frames:
        if len(kids.get(f["name"], [])) > 1 and g.random() < cfg["p_under"] * 3:
            f["under"] = g.choice(kids[f["name"]][1:])
    for i, f in enumerate(frames):
        nm = f["name"]
        acts = f["acts"]
        has_next = i + 1 < len(frames)
        if g.random() < cfg["p_let"]:
            acts.append({"k": "let", "needs": [_cmp_need(g, neg_ok=False)]})
        for ctx in ("enter", "recur", "exit"):
            acts.append({"k": "rec", "ctx": ctx, "tag": "%s.%s" % (nm, ctx)})
            if g.random() < cfg["p_poke"]:
                if g.random() < 0.5:
                    acts.append({"k": "put", "ctx": ctx, "path": g.choice(SHARES), "v": g.randint(0, 4)})
                else:
                    acts.append({"k": "inc", "ctx": ctx, "path": g.choice(SHARES), "v": g.choice([1, 1, 2, -1])})
            if g.random() < cfg.get("p_copyf", 0.0):
                k = g.randint(1, 3)
                src = g.choice(PAIRS)
                acts.append({"k": "copyf", "ctx": ctx, "src": src, "sf": [g.choice("abc") for _ in range(k)],
                             "path": src if g.random() < 0.6 else g.choice(PAIRS), "df": g.sample("abc", k)})
        for ctx in ("renter", "rexit", "precur"):
            if g.random() < cfg["p_ctx_extra"]:
                acts.append({"k": "rec", "ctx": ctx, "tag": "%s.%s" % (nm, ctx)})
        if is_aux and g.random() < cfg["p_done"] and i == len(frames) - 1:
            acts.append({"k": "done", "ctx": g.choice(["enter", "recur"]), "who": ["me"]})
        if not is_aux:
            for ax in aux_names:
                r = g.random()
                if r < cfg["p_aux"]:
                    acts.append({"k": "aux", "name": ax})
                elif r < cfg["p_aux"] + cfg["p_caux"]:
                    acts.append({"k": "aux", "name": ax, "needs": [_need(g, cfg, [], P, allow_marker=False) for _ in range(g.randint(1, 2))]})
                    if g.random() < 0.5:
                        acts.append({"k": "rec", "ctx": "precur", "tag": "%s.precur2" % nm})
            for nm2 in list(aux_names) + list(slave_names):
                if g.random() < cfg["p_done_named"]:
                    acts.append({"k": "done", "ctx": g.choice(["enter", "recur", "exit"]), "who": [nm2]})
            for sl in slave_names:
                if g.random() < cfg["p_fiat"]:
                    acts.append({"k": "fiat", "ctx": g.choice(["enter", "recur", "exit"]), "control": g.choice(["ready", "start", "run", "run", "stop", "abort"]), "who": sl})
            if all_tasks and g.random() < cfg["p_bid"]:
                b = {"k": "bid", "ctx": g.choice(["enter", "recur", "exit"]), "control": g.choice(["start", "run", "stop", "stop", "abort", "ready"]),
                     "who": [g.choice(list(all_tasks) + ["me"])]}
                if b["control"] in ("start", "run", "ready") and g.random() < 0.4:
                    b["period"] = dec(g.choice([0, 1, 2, 3]) * Fraction(P))
                acts.append(b)
        # transitions last (they are precur context in declaration order)
        if kids.get(nm) and g.random() < cfg.get("p_go_me_parent", 0.0):
            acts.append({"k": "go", "far": "me", "needs": [g.choice([{"t": "recurred", "op": ">=", "goal": g.randint(1, 4)},
                                                                      {"t": "elapsed", "op": ">=", "goal": dec(g.randint(1, 5) * Fraction(P))}])]})
        ngo = 0
        while g.random() < cfg["p_go"] and ngo < 3:
            ngo += 1
            if cfg["go_targets"] == "any":
                far = g.choice(names + (["next"] if has_next else []) + ["me"])
            else:
                far = g.choice(names)
            needs = [_need(g, cfg, framer_names, P, aux_names=([] if is_aux else aux_names)) for _ in range(g.choice([0, 1, 1, 1, 2]))]
            acts.append({"k": "go", "far": far, "needs": needs})
        if g.random() < cfg.get("p_go_early", 0.0):
            gi = [j for j, a in enumerate(acts) if a["k"] == "go"]
            ai = [j for j, a in enumerate(acts) if a["k"] == "aux"]
            if gi and ai and ai[0] < gi[0]:
                acts.insert(ai[0], acts.pop(gi[0]))
        if has_next and g.random() < cfg["p_timeout"]:
            k = g.randint(0, 6)
            acts.append({"k": "timeout", "v": dec(k * Fraction(P))})
        if has_next and g.random() < cfg["p_repeat"]:
            acts.append({"k": "repeat", "n": g.randint(0, 5)})
    if not is_aux and cfg.get("p_auxdone_named", 0.0):
        import hashlib
        import random as _random
        side = _random.Random(int(hashlib.sha256((repr(g.getstate()) + "adn").encode()).hexdigest()[:16], 16))
        holders = [(f["name"], a["name"]) for f in frames for a in f["acts"] if a["k"] == "aux" and not a.get("needs")]
        if holders and side.random() < cfg["p_auxdone_named"]:
            # a watcher transition on 'aux A in frame X is done', written in a frame other than X: evaluated also while X does not
            # hold A (before X was entered, after it was left, while the same original runs under another frame)
            xname, aname = side.choice(holders)
            others_ = [f for f in frames if f["name"] != xname]
            if others_:
                w = side.choice(others_)
                tgt = side.choice([f["name"] for f in frames])
                go = {"k": "go", "far": tgt, "needs": [{"t": "auxdone", "sel": aname, "frame": xname, "neg": side.random() < 0.3}]}
                idx = next((j for j, a in enumerate(w["acts"]) if a["k"] in ("timeout", "repeat")), len(w["acts"]))
                w["acts"].insert(idx, go)
    if not is_aux and aux_names and g.random() < cfg.get("p_susp_sibling", 0.0):
        pm, ps, pa, pb = [prefix + x for x in ("sm", "ss", "sa", "sb")]
        host = g.choice([None] + [f["name"] for f in frames if depth[f["name"]] == 0])

        def recs(nm, ctxs):
            return [{"k": "rec", "ctx": c, "tag": "%s.%s" % (nm, c)} for c in ctxs]
        m_acts = recs(pm, ("enter", "recur", "exit", "renter", "rexit"))
        m_acts.append({"k": "go", "far": g.choice([pb, pb, pa]), "needs": [_need(g, cfg, [], P, allow_marker=False)]})
        m_acts.append({"k": "aux", "name": g.choice(aux_names), "needs": [_need(g, cfg, [], P, allow_marker=False)]})
        m_acts.append({"k": "go", "far": g.choice(names + ["me"]), "needs": [_need(g, cfg, [], P, allow_marker=False)]})
        frames.append({"name": pm, "over": host, "acts": m_acts})
        frames.append({"name": ps, "over": pm, "acts": recs(ps, ("enter", "recur", "exit", "renter", "rexit"))})
        frames.append({"name": pa, "over": ps, "acts": recs(pa, ("enter", "recur", "exit")) + [{"k": "go", "far": pb, "needs": [_need(g, cfg, [], P, allow_marker=False)]}]})
        frames.append({"name": pb, "over": ps, "acts": recs(pb, ("enter", "recur", "exit")) + [{"k": "go", "far": g.choice([pa, pm] + names), "needs": [_need(g, cfg, [], P, allow_marker=False)]}]})
        # make it reachable: an unconditional-ish way in from the first generated frame
        frames[0]["acts"].append({"k": "go", "far": pm, "needs": [{"t": "recurred", "op": ">=", "goal": g.randint(0, 3)}]})
    return frames


def gen_program(g, cfg=None):
    """Returns plan fields: {"P", "program", "env": {eid: {call: [[path, field, value]]}}, "ticks"}."""
    cfg = cfg or DEFAULT
    P = g.choice(cfg["periods"])
    ticks = g.randint(*cfg["ticks"])
    naux = g.randint(*cfg["naux"])
    nsl = g.randint(*cfg["nslaves"])
    nmain = g.randint(*cfg["nmain"])
    staged = g.random() < cfg.get("p_staged", 0.0)
    if staged:
        nsl = max(nsl, 1)
    aux_names = ["ax%d" % i for i in range(naux)]
    slave_names = ["sl%d" % i for i in range(nsl)]
    main_names = ["fm%d" % i for i in range(nmain)]
    framers = []
    for i, nm in enumerate(main_names):
        frames = _frames(g, cfg, "m%d" % i, main_names + slave_names, P, aux_names, slave_names, all_tasks=main_names)
        fr = {"name": nm, "sched": "inactive" if g.random() < cfg["p_inactive"] else "active", "order": g.choice([None, None, "front", "back"]),
              "period": None, "pdec": "0", "first": g.choice([f["name"] for f in frames]), "frames": frames}
        if g.random() < cfg["p_period"]:
            k = g.choice([1, 2, 3])
            fr["pdec"] = dec(k * Fraction(P))
            fr["period"] = fr["pdec"]
        framers.append(fr)
    for i, nm in enumerate(aux_names):
        frames = _frames(g, cfg, "a%d" % i, [], P, [], [], is_aux=True)
        framers.append({"name": nm, "sched": "aux", "order": None, "period": None, "pdec": "0", "first": frames[0]["name"], "frames": frames})
    for i, nm in enumerate(slave_names):
        frames = _frames(g, cfg, "s%d" % i, [], P, [], [], is_aux=True)
        so = None
        if cfg.get("p_slave_order", 0.0):       # 'be slave in front / back' is legal and must not put the slave into the skedder's run order
            import hashlib
            import random as _random
            so = _random.Random(int(hashlib.sha256(repr(g.getstate()).encode()).hexdigest()[:16], 16)).choice([None, "front", "back"]) if True else None
            if _random.Random(int(hashlib.sha256((repr(g.getstate()) + "p").encode()).hexdigest()[:16], 16)).random() >= cfg["p_slave_order"]:
                so = None
        framers.append({"name": nm, "sched": "slave", "order": so, "period": None, "pdec": "0", "first": frames[0]["name"], "frames": frames})
    if staged:
        # the life cycle idiom of the shipped slave plans: ready / start / run / stop ... in successive frames, the environment
        # (and the slave's own actions) changing the guarded shares in between
        seq = []
        if g.random() < 0.5:
            seq = ["ready", "start"] + g.choice([[], ["run"], ["run", "stop"], ["stop", "ready", "start"], ["start"]])
        else:
            for _ in range(g.randint(2, 7)):
                seq.append(g.choice(["ready", "ready", "start", "start", "run", "run", "stop", "abort"]))
        for fr in framers:          # guarded first frames on the slaves, so that whether a ready / start is admitted depends on the history
            if fr["sched"] == "slave" and g.random() < 0.7:
                first = [f for f in fr["frames"] if f["name"] == fr["first"]][0]
                if not any(a["k"] == "let" for a in first["acts"]):
                    first["acts"].insert(0, {"k": "let", "needs": [_cmp_need(g, neg_ok=False)]})
        sframes = []
        for i, control in enumerate(seq):
            fname = "st%s" % "abcdefghij"[i]
            acts = [{"k": "rec", "ctx": "enter", "tag": "%s.enter" % fname}, {"k": "rec", "ctx": "exit", "tag": "%s.exit" % fname},
                    {"k": "fiat", "ctx": g.choice(["enter", "enter", "recur", "exit"]), "control": control, "who": g.choice(slave_names)}]
            if i + 1 < len(seq):
                hold = g.choice([0, 0, 1, 2, 3])
                acts.append({"k": "go", "far": "next", "needs": [] if hold == 0 else [{"t": "recurred", "op": ">=", "goal": hold}]})
            sframes.append({"name": fname, "over": None, "acts": acts})
        framers.append({"name": "fmst", "sched": "active", "order": g.choice([None, "front", "back"]), "period": None, "pdec": "0",
                        "first": sframes[0]["name"], "frames": sframes})
    g.shuffle(framers)
    env = {}
    if g.random() < cfg["p_env"]:
        counter = 100
        table = {}
        for t in range(ticks):
            if g.random() < 0.45:
                writes = []
                for _ in range(g.randint(1, 2)):
                    counter += 1
                    writes.append([g.choice(SHARES), "value", g.choice([g.randint(0, 4), g.randint(0, 4), counter])])
                    if cfg.get("p_env_field", 0.0) and g.random() < cfg["p_env_field"]:
                        # a write that adds (or rewrites) another field of the share and leaves 'value' alone
                        writes[-1][1] = g.choice(["extra", "extra", "more"])
                table[str(t)] = writes
        env = {"0": table}
        envf = {"name": "zenv", "sched": "active", "order": g.choice(["front", "back", None]), "period": None, "pdec": "0", "first": "zenv0",
                "frames": [{"name": "zenv0", "over": None, "acts": [{"k": "env", "ctx": "recur", "eid": 0}]}]}
        framers.insert(g.randint(0, len(framers)), envf)
    end_bid = {"k": "bid", "ctx": "enter", "control": "stop", "who": [f["name"] for f in framers if f["sched"] in ("active", "inactive")] or ["me"]}
    if cfg.get("p_abort_end", 0.0):
        import hashlib
        import random as _random
        side = _random.Random(int(hashlib.sha256(repr(g.getstate()).encode()).hexdigest()[:16], 16))
        if side.random() < cfg["p_abort_end"]:
            # the run ends by aborting everything that is still running (the clock framer included) instead of stopping it
            # first: the frames' exit actions run during the abort tick, the last tasker of that tick with nothing else scheduled
            end_bid = {"k": "bid", "ctx": "enter", "control": "abort", "who": ["all"]}
    clk = {"name": "zclk", "sched": "active", "order": g.choice(["front", "back", None]), "period": None, "pdec": "0", "first": "zclk0",
           "frames": [{"name": "zclk0", "over": None, "acts": [{"k": "repeat", "n": ticks}]},
                      {"name": "zclk1", "over": None, "acts": [end_bid, {"k": "repeat", "n": 2}]},
                      # abort is final: whatever the other framers' exit actions bid, the run ends
                      {"name": "zclk2", "over": None, "acts": [{"k": "bid", "ctx": "recur", "control": "abort", "who": ["all"]}]}]}
    framers.insert(g.randint(0, len(framers)), clk)
    inits = [[s, 0] for s in SHARES]
    if cfg.get("p_copyf", 0.0):
        inits += [[p, {"a": g.randint(0, 4), "b": g.randint(0, 4), "c": g.randint(0, 4)}] for p in PAIRS]
        if env:
            for t, writes in env["0"].items():
                if g.random() < 0.3:
                    writes.append([g.choice(PAIRS), g.choice("abc"), g.randint(0, 4)])
    return {"P": P, "program": {"house": "h", "framers": framers, "inits": inits}, "env": env, "ticks": ticks}


def env_table(plan_env):
    """JSON form ({"0": {"3": [[path, field, value]]}}) -> harness / model form ({0: {3: [(path, field, value)]}})."""
    return dict((int(e), dict((int(c), [tuple(w) for w in ws]) for c, ws in calls.items())) for e, calls in (plan_env or {}).items())
