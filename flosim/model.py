"""Reference interpreter of the FloScript semantics used by the checks (DESIGN.md appendix A).

Works on the AST (flosim.lang), not on ioflo's object graph.  Time is exact: tick n is at
n*P with P and all periods / timeouts taken as Fractions of the script's decimal literals.
Emits the same vocabulary as the harness probes:
  ("rec", tag, framer, frame, context)   ("env", eid, path, field, value)
  ("send", tasker, control)              ("sent", tasker, control, status, snapshot)
"""
from fractions import Fraction

# controls / statuses as in ioflo.base.globaling (checked against it by the harness self-test)
STOP, START, RUN, ABORT, READY = 0, 1, 2, 3, 4
STOPPED, STARTED, RUNNING, ABORTED, READIED = 0, 1, 2, 3, 4
CONTROL = {"stop": STOP, "start": START, "run": RUN, "abort": ABORT, "ready": READY}
STATUS = {"stopped": STOPPED, "started": STARTED, "running": RUNNING, "aborted": ABORTED, "readied": READIED}
FIAT_WANT = {"ready": READIED, "start": STARTED, "run": RUNNING, "stop": STOPPED, "abort": ABORTED}


def frac(x):
    return x if isinstance(x, Fraction) else Fraction(str(x))


class MFrame(object):
    def __init__(self, ast, framer):
        self.name = ast["name"]
        self.framer = framer
        self.over = ast.get("over")
        self.unders = []
        self.next = ast.get("next")
        self.beacts, self.enacts, self.renacts, self.reacts = [], [], [], []
        self.preacts, self.exacts, self.rexacts = [], [], []
        self.auxes = []      # names of plain auxiliary framers
        self.cauxes = []     # conditional aux acts in declaration order (their deactivation runs at the end of exit)
        for a in ast["acts"]:
            k = a["k"]
            if k == "let":
                self.beacts.extend(a["needs"])
            elif k in ("go", "timeout", "repeat"):
                self.preacts.append(a)
            elif k == "aux":
                if a.get("needs"):
                    self.preacts.append(a)
                    self.cauxes.append(a)
                else:
                    self.auxes.append(a)
            else:
                {"enter": self.enacts, "recur": self.reacts, "exit": self.exacts, "precur": self.preacts,
                 "renter": self.renacts, "rexit": self.rexacts}[a["ctx"]].append(a)


class MFramer(object):
    def __init__(self, ast):
        self.name = ast["name"]
        self.sched = ast.get("sched", "active")
        self.period = frac(ast.get("pdec", ast.get("period") or 0))
        self.frames = {}
        self.order = []
        for f in ast["frames"]:
            fr = MFrame(f, self)
            self.frames[fr.name] = fr
            self.order.append(fr.name)
        for i, n in enumerate(self.order):      # lexical next
            fr = self.frames[n]
            if not fr.next:
                fr.next = self.order[i + 1] if i + 1 < len(self.order) else None
        # A frame is attached to its over frame when the first frame of its own subtree is reached in declaration order
        # (each frame resolves every still unresolved link on its way up to the top).  With every over frame declared
        # before its unders this is plain declaration order; with forward references ('frame b in a' before 'frame a') a
        # child whose descendant is declared early comes first.  The primary child is the first attached one.
        for n in self.order:
            cur = self.frames[n]
            while cur.over:
                parent = self.frames[cur.over]
                if cur.name not in parent.unders:
                    parent.unders.append(cur.name)
                cur = parent
        for f in ast["frames"]:
            if f.get("under"):                   # primary child override
                u = self.frames[f["name"]].unders
                u.remove(f["under"])
                u.insert(0, f["under"])
        self.first = ast.get("first") or self.order[0]
        self.status = STOPPED
        self.desire = START if self.sched == "active" else STOP
        self.active = None
        self.cut = None          # name of the frame whose conditional aux suspends the frames below it
        self.stamp = None
        self.elapsed = Fraction(0)
        self.recurred = 0
        self.done = True
        self.main = None         # (framer name, frame name) owning this aux
        self.original = ast.get("original", True)

    def outline(self, name):
        up = []
        f = self.frames[name]
        while f is not None:
            up.append(f.name)
            f = self.frames[f.over] if f.over else None
        up.reverse()
        f = self.frames[name]
        while f.unders:
            f = self.frames[f.unders[0]]
            up.append(f.name)
        return up

    def head(self, name):
        up = []
        f = self.frames[name]
        while f is not None:
            up.append(f.name)
            f = self.frames[f.over] if f.over else None
        up.reverse()
        return up

    def full(self):
        return self.outline(self.active) if self.active else []

    def actives(self):
        """The evaluated set: the full outline cut after the topmost frame that has a conditional auxiliary running under
        it.  Computed from the auxiliaries' own state, not remembered: a suspension lasts exactly as long as its auxiliary
        runs, so it survives a transition that keeps the main frame (the frame is only re-entered) and the completion of
        another conditional auxiliary above or beside it (C05 / C10: 'while a conditional auxiliary of an active frame is
        running ...')."""
        full = self.full()
        model = getattr(self, "model", None)
        if model is None or not getattr(model, "fix_suspension_persists", True):
            if self.cut is not None and self.cut in full:
                return full[:full.index(self.cut) + 1]
            return full
        for i, name in enumerate(full):
            for a in self.frames[name].cauxes:
                ax = model.aux_framer(a)
                if ax.active is not None and ax.main == (self.name, name):
                    return full[:i + 1]
        return full


class Model(object):
    def __init__(self, program, P, env_table=None, max_ticks=200, fix_suspended_exit=True, sweep_order=None):
        self.P = frac(P)
        self.prog = program
        self.env_table = env_table or {}
        self.env_calls = {}
        self.trace = []
        self.seq = 0
        self.shares = {}     # path -> {"fields": {field: value}, "stamp": Fraction|None}
        self.marks = {}      # (path, key) -> {"stamp", "used", "data"}
        self.framers = {}
        self.forder = []
        self.max_ticks = max_ticks
        # the order in which the final sweep aborts the remaining taskers is not fixed by any statement: when the caller
        # passes the order the implementation used, the model follows it (taskers it does not name come last)
        self.sweep_order = list(sweep_order or [])
        self.now = Fraction(0)
        self.fix_suspended_exit = fix_suspended_exit
        self.cap = None
        for path, value in program.get("inits", []):
            self.shares[path] = {"fields": dict(value) if isinstance(value, dict) else {"value": value}, "stamp": None}
        for fa in program["framers"]:
            fr = MFramer(fa)
            fr.model = self
            self.framers[fr.name] = fr
            self.forder.append(fr.name)
        self.tasks = []
        for sel in ("front", None, "back"):
            for fa in program["framers"]:
                o = fa.get("order")
                o = None if o == "mid" else o
                if o == sel and fa.get("sched", "active") in ("active", "inactive"):
                    self.tasks.append(fa["name"])
        self._resolve()

    # -- resolve-time effects -------------------------------------------------------------
    def share(self, path):
        s = self.shares.get(path)
        if s is None:
            s = self.shares[path] = {"fields": {}, "stamp": None}
        return s

    def _resolve(self):
        for fn in self.forder:
            fr = self.framers[fn]
            for name in fr.order:
                f = fr.frames[name]
                needs = list(f.beacts)
                for a in f.preacts:
                    if a["k"] in ("go", "aux"):
                        needs.extend(a.get("needs") or [])
                for n in needs:
                    if n["t"] in ("cmp", "bool"):
                        s = self.share(n["path"])
                        s["fields"].setdefault(n.get("field") or "value", 0.0)
                    if n["t"] in ("updated", "changed"):
                        self.share(n["path"])
                        key = self.mark_key(fr, f, n)
                        self.marks.setdefault((n["path"], key), {"stamp": None, "used": None, "data": None})
                        if n.get("frame") is not None:       # 'in frame [name]': marker is the first enter action there
                            target = fr.frames[n["frame"] if n["frame"] not in ("", "me") else f.name]
                            mk = {"k": "marker", "kind": n["t"], "path": n["path"], "key": key, "ctx": "enter"}
                            if not any(e.get("k") == "marker" and e["kind"] == mk["kind"] and e["path"] == mk["path"] and e["key"] == mk["key"] for e in target.enacts):
                                target.enacts.insert(0, mk)

    @staticmethod
    def mark_key(fr, f, n):
        frame = n.get("frame")
        named = frame if frame not in (None, "", "me") else f.name
        return "%s<%s" % (fr.name, n["by"] if n.get("by") else named)

    # -- trace ----------------------------------------------------------------------------
    def add(self, *ev):
        self.seq += 1
        self.trace.append((self.seq, self.now) + ev)

    def snapshot(self, fr):
        return (fr.active, tuple(fr.actives()), fr.elapsed, fr.recurred, bool(fr.done))

    # -- needs ----------------------------------------------------------------------------
    def check(self, state, op, goal, tol):
        if op in ("==", "!="):
            try:
                r = (goal - abs(tol or 0)) <= state <= (goal + abs(tol or 0))
            except TypeError:
                r = goal == state
            return r if op == "==" else not r
        return {"<": state < goal, "<=": state <= goal, ">=": state >= goal, ">": state > goal}[op]

    def need(self, fr, f, n):
        t = n["t"]
        if t == "cmp":
            r = self.check(self.share(n["path"])["fields"].get(n.get("field") or "value"), n["op"], n["goal"], n.get("tol"))
        elif t == "bool":
            r = bool(self.share(n["path"])["fields"].get("value"))
        elif t == "elapsed":
            r = self.check(fr.elapsed, n["op"], frac(n["goal"]), None)
        elif t == "recurred":
            r = self.check(fr.recurred, n["op"], n["goal"], None)
        elif t == "done":
            r = bool(self.framers[n["who"]].done)
        elif t == "status":
            who = fr if n["who"] == "me" else self.framers[n["who"]]
            r = who.status == STATUS[n["status"]]
        elif t == "auxdone":
            frame = fr.frames[n["frame"]] if n.get("frame") and n["frame"] != "me" else f
            auxes = [self.aux_framer(a) for a in frame.auxes]
            if n["sel"] == "any":
                r = any(a.done for a in auxes)
            elif n["sel"] == "all":
                r = bool(auxes) and all(a.done for a in auxes)
            else:
                r = any(a.name == n["sel"] and a.done for a in auxes)
        elif t == "updated":
            s = self.share(n["path"])
            m = self.marks[(n["path"], self.mark_key(fr, f, n))]
            r = False
            if s["stamp"] is not None:
                r = m["stamp"] is None or s["stamp"] > m["stamp"] or (s["stamp"] == m["stamp"] and m["used"] != m["stamp"])
        elif t == "changed":
            s = self.share(n["path"])
            m = self.marks[(n["path"], self.mark_key(fr, f, n))]
            r = m["data"] is None or any(k not in m["data"] or m["data"][k] != v for k, v in s["fields"].items())
        else:
            raise ValueError(t)
        return (not r) if n.get("neg") else r

    def needs(self, fr, f, needs):
        for n in needs:
            if not self.need(fr, f, n):
                return False
        return True

    def tracts(self, fr, f, needs):
        for n in needs:
            if n["t"] in ("updated", "changed"):
                self.marker(n["t"], n["path"], self.mark_key(fr, f, n), transit=True)

    def marker(self, kind, path, key, transit=False):
        m = self.marks[(path, key)]
        if kind == "updated":
            m["stamp"] = self.now
            if transit:
                m["used"] = self.now
        else:
            m["data"] = dict(self.share(path)["fields"])

    # -- actions --------------------------------------------------------------------------
    def aux_framer(self, a):
        return self.framers[a["as_name"] if a.get("as_name") else a["name"]]

    def act(self, fr, f, a):
        k = a["k"]
        if k == "rec":
            self.add("rec", a["tag"], fr.name, f.name, a["ctx"])
        elif k == "marker":
            self.marker(a["kind"], a["path"], a["key"])
        elif k == "env":
            n = self.env_calls.get(a["eid"], 0)
            self.env_calls[a["eid"]] = n + 1
            for path, field, value in self.env_table.get(a["eid"], {}).get(n, ()):
                s = self.share(path)
                s["fields"][field] = value
                s["stamp"] = self.now
                self.add("env", a["eid"], path, field, value)
        elif k == "put":
            s = self.share(a["path"])
            s["fields"]["value"] = a["v"]
            s["stamp"] = self.now
        elif k == "inc":
            s = self.share(a["path"])
            s["fields"]["value"] = s["fields"].get("value", 0) + a["v"]
            s["stamp"] = self.now
        elif k == "copy":
            s = self.share(a["path"])
            s["fields"]["value"] = self.share(a["src"])["fields"].get("value")
            s["stamp"] = self.now
        elif k == "copyf":       # simultaneous positional transfer: every source is read before any destination is written
            vals = [self.share(a["src"])["fields"].get(f) for f in a["sf"]]
            s = self.share(a["path"])
            for f, v in zip(a["df"], vals):
                s["fields"][f] = v
            s["stamp"] = self.now
        elif k == "bid":
            for who in a["who"]:
                targets = [fr] if who == "me" else ([self.framers[t] for t in self.tasks] if who == "all" else [self.framers[who]])
                for t in targets:
                    if a.get("period") is not None and a["control"] in ("start", "run", "ready"):
                        t.period = max(Fraction(0), frac(a.get("pdec", a["period"])))
                    t.desire = CONTROL[a["control"]]
        elif k == "done":
            for who in (a.get("who") or ["me"]):
                (fr if who == "me" else self.framers[who]).done = True
        elif k == "fiat":
            t = self.framers[a["who"]]
            st = self.send(t, CONTROL[a["control"]], fiat=True)
            self.add("fiat", a["control"], t.name, st == FIAT_WANT[a["control"]])
        else:
            raise ValueError(k)

    # -- framer machinery (A.2 - A.6) -------------------------------------------------------
    def check_enter(self, fr, enters, exits):
        if not enters:
            return False
        claimed = set()
        for name in enters:
            f = fr.frames[name]
            if not self.needs(fr, f, f.beacts):
                return False
            for a in f.auxes:
                ax = self.aux_framer(a)
                if ax.main and ax.main != (fr.name, name) and not (ax.main[0] == fr.name and ax.main[1] in exits):
                    return False
                if ax.original:
                    if ax.name in claimed:     # the same original aux under two frames of the outline being entered
                        return False
                    claimed.add(ax.name)
                if not self.check_start(ax):
                    return False
        return True

    def check_start(self, fr):
        return self.check_enter(fr, fr.outline(fr.first), [])

    def restart_clocks(self, fr):
        fr.stamp = self.now
        fr.elapsed = Fraction(0)
        fr.recurred = 0

    def enter_frames(self, fr, enters):
        if enters:
            self.restart_clocks(fr)
        for name in enters:
            f = fr.frames[name]
            for a in f.enacts:
                self.act(fr, f, a)
            for a in f.auxes:
                ax = self.aux_framer(a)
                if ax.original:
                    ax.main = (fr.name, name)
                self.enter_all(ax)

    def enter_all(self, fr):
        fr.done = False
        fr.active = fr.first
        fr.cut = None
        self.enter_frames(fr, fr.actives())

    def exit_frames(self, fr, exits):
        for name in reversed(exits):
            f = fr.frames[name]
            for a in f.auxes:
                ax = self.aux_framer(a)
                self.exit_all(ax)
                if ax.original:
                    ax.main = None
            for a in f.exacts:
                self.act(fr, f, a)
            for a in f.cauxes:       # deactivize side acts sit at the end of the exit actions
                ax = self.aux_framer(a)
                # 'running' means entered: an aux marked done by a done verb (even by this frame's own exit actions) is still exited
                if ax.active is not None and (not ax.original or ax.main == (fr.name, name)):
                    self.exit_all(ax)
                    if ax.original:
                        ax.main = None

    def exit_all(self, fr, abort=False):
        exits = fr.full() if self.fix_suspended_exit else fr.actives()
        self.exit_frames(fr, exits)
        fr.active = None
        fr.cut = None
        if not abort:
            fr.done = True

    def recur(self, fr):
        for name in fr.actives():
            f = fr.frames[name]
            for a in f.reacts:
                self.act(fr, f, a)
            for a in f.auxes:
                self.recur(self.aux_framer(a))

    def segue(self, fr):
        fr.elapsed = self.now - fr.stamp if fr.stamp is not None else Fraction(0)
        fr.recurred += 1
        acts = fr.actives()
        for name in acts:
            for a in fr.frames[name].auxes:
                self.segue(self.aux_framer(a))
        for name in acts:
            if self.precur(fr, fr.frames[name]):
                return True
        return False

    def precur(self, fr, f):
        for a in f.preacts:
            k = a["k"]
            if k in ("go", "timeout", "repeat"):
                if k == "timeout":
                    needs, far = [{"t": "elapsed", "op": ">=", "goal": a["v"]}], "next"
                elif k == "repeat":
                    needs, far = [{"t": "recurred", "op": ">=", "goal": a["n"]}], "next"
                else:
                    needs, far = a.get("needs") or [], a["far"]
                if self.transit(fr, f, needs, far):
                    return True
            elif k == "aux":
                if self.suspend(fr, f, a):
                    return True
            else:
                self.act(fr, f, a)
        return False

    def transit(self, fr, f, needs, far):
        if not self.needs(fr, f, needs):
            return False
        far = f.next if far == "next" else (f.name if far == "me" else far)
        if far is None:
            return False
        cur = fr.full() if self.fix_suspended_exit else fr.actives()
        tgt = fr.outline(far)
        i = None
        for j in range(min(len(cur), len(tgt))):
            if cur[j] == far or cur[j] != tgt[j]:
                i = j
                break
        if i is None:
            return False
        exits, enters, common = cur[i:], tgt[i:], cur[:i]
        if not self.check_enter(fr, enters, exits):
            return False
        self.tracts(fr, f, needs)
        self.exit_frames(fr, exits)
        for name in reversed(common):
            for a in fr.frames[name].rexacts:
                self.act(fr, fr.frames[name], a)
        for name in common:
            for a in fr.frames[name].renacts:
                self.act(fr, fr.frames[name], a)
        fr.cut = None
        self.enter_frames(fr, enters)
        fr.active = far
        return True

    def suspend(self, fr, f, a):
        ax = self.aux_framer(a)
        if ax.done and ax.active is not None and (not ax.original or ax.main == (fr.name, f.name)):
            # completed from outside (a done verb) while running here: fully exited, suspended frames resume
            self.exit_all(ax)
            if ax.original:
                ax.main = None
            fr.cut = None
            return False
        if ax.done:
            if not self.needs(fr, f, a["needs"]):
                return False
            if ax.main and ax.main != (fr.name, f.name):
                return False
            if not self.check_start(ax):
                return False
            self.tracts(fr, f, a["needs"])
            if ax.original:
                ax.main = (fr.name, f.name)
            self.enter_all(ax)
            self.recur(ax)
            if ax.done:
                self.exit_all(ax)
                if ax.original:
                    ax.main = None
                return False
            fr.cut = f.name
            return True
        if ax.original and ax.main != (fr.name, f.name):
            return False          # running as the auxiliary of another frame: not this clause's to run
        self.segue(ax)
        self.recur(ax)
        if ax.done:
            self.exit_all(ax)
            if ax.original:
                ax.main = None
            fr.cut = None
            return False
        return True

    def send(self, fr, control, fiat=False):
        if self.cap is not None and self.now >= self.cap:
            control = ABORT     # mirrors the harness: past the tick cap every control is forced to abort
        self.add("send", fr.name, control)
        st = fr.status
        if control == RUN:
            if st in (RUNNING, STARTED):
                self.segue(fr)
                self.recur(fr)
                fr.status = RUNNING
            elif st in (STOPPED, READIED):
                fr.desire = START
            else:
                fr.desire = ABORT
                fr.status = ABORTED
        elif control == READY:
            if st in (STOPPED, READIED):
                if self.check_start(fr):
                    fr.status = READIED
                else:
                    fr.desire = STOP
                    fr.status = STOPPED
            elif st in (RUNNING, STARTED):
                pass
            else:
                fr.desire = ABORT
                fr.status = ABORTED
        elif control == START:
            if st in (STOPPED, READIED):
                if self.check_start(fr):
                    fr.desire = RUN
                    self.enter_all(fr)
                    self.recur(fr)
                    fr.status = STARTED
                else:
                    fr.desire = STOP
                    fr.status = STOPPED
            elif st in (RUNNING, STARTED):
                fr.desire = RUN
            else:
                fr.desire = ABORT
                fr.status = ABORTED
        elif control == STOP:
            if st in (RUNNING, STARTED):
                fr.desire = STOP
                self.exit_all(fr, abort=True)
                fr.status = STOPPED
            elif st in (STOPPED, READIED):
                pass
            else:
                fr.desire = ABORT
                fr.status = ABORTED
        else:
            if st in (RUNNING, STARTED):
                self.exit_all(fr)
            fr.desire = ABORT
            fr.status = ABORTED
        self.add("sent", fr.name, control, fr.status, self.snapshot(fr))
        return fr.status

    # -- skedder (A.1) ----------------------------------------------------------------------
    def run(self):
        ready = list(self.tasks)
        due = dict((t, Fraction(0)) for t in ready)
        base = {}
        tick = 0
        self.now = Fraction(0)
        while True:
            more = False
            for name in list(ready):
                fr = self.framers[name]
                if due[name] > self.now:
                    st = fr.status
                else:
                    st = self.send(fr, fr.desire)
                    if st == ABORTED:
                        ready.remove(name)
                    else:
                        b = base.get(name)
                        if b is None or b[2] != fr.period:
                            b = base[name] = [due[name], 0, fr.period]
                        b[1] += 1
                        due[name] = b[0] + b[1] * b[2]
                if st in (RUNNING, STARTED):
                    more = True
            if not ready or not more or tick >= self.max_ticks:
                break
            tick += 1
            self.now = tick * self.P
        self.ticks = tick
        so = self.sweep_order
        for name in sorted(ready, key=lambda n: so.index(n) if n in so else len(so)):
            self.send(self.framers[name], ABORT)
        return self.trace
