"""flosim: whole houses under the real skedder.

Runs for real: Builder.build on FloScript text (served from memory through building.open),
House.resolve, Skedder.run (real=False: simulated store time), every Framer / Frame / Act /
actor, the Store.  Harness parts: three actor classes registered with the public `doify`
decorator (Rec, Env, Fault), a ProbeRunner around every tasker.runner, and optional proxies
around acts whose return value must be seen.
"""
import io

import simkit  # noqa
from simkit.core import Trace

_STATE = {"run": None}
_REGISTERED = [False]


class RunState(object):
    def __init__(self):
        self.trace = []          # (seq, stamp, kind, ...) plain tuples
        self.seq = 0
        self.env_calls = {}      # env id -> number of calls so far
        self.env_table = {}      # env id -> {call index: [(path, field, value)]}
        self.fault_at = None     # (fault id, occurrence, kind)
        self.fault_calls = {}
        self.fault_fired = None
        self.recs = 0            # number of Rec executions (crash points)
        self.crash_rec = None    # (global rec index, kind): raise inside that Rec execution
        self.crashed_in = None
        self.cap = None          # store time from which every send is forced to ABORT

    def add(self, *ev):
        self.seq += 1
        self.trace.append((self.seq,) + ev)


class SimCrash(Exception):
    """An action raising an ordinary exception (planned crash point)."""


def _register():
    if _REGISTERED[0]:
        return
    from ioflo.base import doing

    @doing.doify('VerifRec', parms=dict(tag=""))
    def rec(self, tag="", **kw):
        st = _STATE["run"]
        act = self._act
        frame = act.frame
        st.add(self.store.stamp, "rec", tag, frame.framer.name, frame.name, act.context)
        idx = st.recs
        st.recs += 1
        if st.crash_rec is not None and st.crash_rec[0] == idx:
            st.crashed_in = (frame.framer.name, frame.name, tag)
            if st.crash_rec[1] == "kbd":
                raise KeyboardInterrupt()
            raise SimCrash("planned crash in %s" % tag)

    @doing.doify('VerifEnv', parms=dict(eid=0))
    def env(self, eid=0, **kw):
        st = _STATE["run"]
        n = st.env_calls.get(eid, 0)
        st.env_calls[eid] = n + 1
        for path, field, value in st.env_table.get(eid, {}).get(n, ()):
            share = self.store.create(path)
            if field == "@push":              # deck push
                share.push(value)
            elif field.startswith("@append:"):  # append to a list-valued field (streak)
                share[field[8:]].append(value)
            else:
                share.update(**{field: value})
            st.add(self.store.stamp, "env", eid, path, field, value)

    _REGISTERED[0] = True


class ProbeRunner(object):
    """Wraps tasker.runner: the skedder and the fiat actors only ever call .send() on it."""

    def __init__(self, tasker, inner, st, snap, label=None):
        self.tasker, self.inner, self.st, self.snap = tasker, inner, st, snap
        self.label = label or tasker.name      # taskers of a second house are reported as "<house>.<name>"

    def send(self, control):
        st = self.st
        t = self.tasker
        if st.cap is not None and t.store.stamp >= st.cap:
            control = 3   # ABORT: past the run's tick cap every control is forced to abort so that the run ends
        st.add(t.store.stamp, "send", self.label, control)
        try:
            status = self.inner.send(control)
        except BaseException as ex:
            st.add(t.store.stamp, "raised", self.label, type(ex).__name__)
            raise
        st.add(t.store.stamp, "sent", self.label, control, status, self.snap(t))
        return status

    def __next__(self):
        return next(self.inner)

    def close(self):
        return self.inner.close()

    def throw(self, *a):
        return self.inner.throw(*a)


def snapshot(t):
    """Abstract state of a framer after a send: (active frame, active outline, elapsed, recurred, done)."""
    if not hasattr(t, "actives"):
        return None
    return (t.active.name if t.active is not None else None, tuple(f.name for f in t.actives),
            t.elapsed, t.recurred, bool(t.done))


class Result(object):
    pass


def _wrap_fiats(house, st):
    """Records the return value of every fiat action (ready/start/run/stop/abort of a slave)."""
    from ioflo.base import fiating
    names = {"FiatReady": "ready", "FiatStart": "start", "FiatRun": "run", "FiatStop": "stop", "FiatAbort": "abort"}
    for fr in house.framers:
        for frame in fr.frameNames.values():
            for lst in (frame.beacts, frame.enacts, frame.renacts, frame.reacts, frame.preacts, frame.exacts, frame.rexacts):
                for act in lst:
                    actor = getattr(act, "actor", None)
                    if isinstance(actor, fiating.Fiat) and not getattr(actor, "_verif_wrapped", False):
                        def make(actor, inner):
                            def action(**kw):
                                r = inner(**kw)
                                st.add(actor.store.stamp, "fiat", names.get(type(actor).__name__, type(actor).__name__), kw["tasker"].name, r)
                                return r
                            return action
                        actor.action = make(actor, actor.action)
                        actor._verif_wrapped = True


def run_script(script, period=0.125, env_table=None, crash_rec=None, real=False, simtime=None, stamp=0.0, after_build=None, cap=None):
    """Builds and runs one FloScript program.  Returns a Result with .trace, .built, .exc, .house ..."""
    from ioflo.base import building, skedding
    from ioflo.aid.consoling import getConsole
    getConsole()._verbosity = 0
    _register()
    st = RunState()
    st.env_table = env_table or {}
    st.crash_rec = crash_rec
    st.cap = cap
    _STATE["run"] = st
    had_open = "open" in building.__dict__
    old_open = building.__dict__.get("open")

    def sim_open(name, mode="r", *a, **k):
        if str(name).endswith("verif_plan.flo"):
            f = io.StringIO(script)
            f.name = str(name)
            return f
        return open(name, mode, *a, **k)

    res = Result()
    res.state = st
    res.exc = None
    res.built = False
    res.skedder = None
    saved_time = skedding.time
    building.open = sim_open
    try:
        if simtime is not None:
            skedding.time = simtime
            import ioflo.aid.timing as timing
            saved_timing_time = timing.time
            timing.time = simtime
        sk = skedding.Skedder(name="sim", period=period, stamp=stamp, real=real, filepath="/sim/verif_plan.flo")
        res.skedder = sk
        con = getConsole()
        errors = []
        orig_terse = con.terse

        def capture(msg):
            if "Error" in msg:
                errors.append(msg.strip().splitlines()[0][:200])
        con.terse = capture
        try:
            res.built = bool(sk.build())
        except Exception as ex:
            res.exc = ("build", ex)
            res.build_errors = errors
            return res
        finally:
            del con.terse
        res.build_errors = errors
        if not res.built:
            return res
        house = sk.houses[0]
        res.house = house
        seen = set()
        for t in list(house.taskables) + list(getattr(house, "slaves", [])) + list(getattr(house, "framers", [])):
            if id(t) in seen or not hasattr(t, "runner"):
                continue
            seen.add(id(t))
            t.runner = ProbeRunner(t, t.runner, st, snapshot)
        _wrap_fiats(house, st)
        for other in sk.houses[1:]:      # further houses of the same skedder: their taskers are reported as "<house>.<name>"
            for t in list(other.taskables) + list(getattr(other, "slaves", [])) + list(getattr(other, "framers", [])):
                if id(t) in seen or not hasattr(t, "runner"):
                    continue
                seen.add(id(t))
                t.runner = ProbeRunner(t, t.runner, st, snapshot, label="%s.%s" % (other.name, t.name))
        if after_build is not None:
            after_build(res)
        try:
            sk.run()
        except KeyboardInterrupt as ex:
            res.exc = ("run", ex)
        except Exception as ex:
            res.exc = ("run", ex)
        res.final_stamp = sk.stamp
    finally:
        if had_open:
            building.open = old_open
        else:
            del building.open
        skedding.time = saved_time
        if simtime is not None:
            timing.time = saved_timing_time
        _STATE["run"] = None
    res.trace = st.trace
    return res


def digest(trace):
    tr = Trace(keep=False)
    for ev in trace:
        tr.add(*ev)
    return tr.digest()
