"""Co-simulation of the implementation (flosim.harness) and the reference model (flosim.model)."""
from fractions import Fraction

from flosim.lang import emit
from flosim.harness import run_script
from flosim.model import Model
from flosim.gen import env_table


def norm_impl(trace, P):
    out = []
    Pf = float(P)
    for e in trace:
        kind = e[2]
        tick = int(round(e[1] / Pf)) if Pf else 0
        if kind == "rec":
            out.append((tick, "rec", e[3], e[4], e[5], e[6]))
        elif kind == "env":
            out.append((tick, "env", e[3], e[4], e[5], e[6]))
        elif kind == "send":
            out.append((tick, "send", e[3], e[4]))
        elif kind == "sent":
            snap = e[6]
            out.append((tick, "sent", e[3], e[4], e[5], snap))
        elif kind == "raised":
            out.append((tick, "raised", e[3], e[4]))
        elif kind == "fiat":
            out.append((tick, "fiat", e[3], e[4], bool(e[5])))
    return out


def norm_model(trace, P):
    out = []
    for e in trace:
        kind = e[2]
        tick = int(e[1] / P)
        if kind in ("rec", "env", "fiat"):
            out.append((tick, kind) + tuple(e[3:]))
        elif kind == "send":
            out.append((tick, "send", e[3], e[4]))
        elif kind == "sent":
            out.append((tick, "sent", e[3], e[4], e[5], e[6]))
    return out


def same_event(a, b):
    if a[:2] != b[:2]:
        return False
    if a[1] != "sent":
        return tuple(a) == tuple(b)
    if a[2:5] != b[2:5]:
        return False
    sa, sb = a[5], b[5]
    if sa is None or sb is None:
        return sa is None and sb is None
    if sa[0] != sb[0] or tuple(sa[1]) != tuple(sb[1]) or sa[3] != sb[3] or bool(sa[4]) != bool(sb[4]):
        return False
    return abs(float(sa[2]) - float(sb[2])) < 1e-9


def impl_sweep_order(trace):
    """Names of the taskers the implementation aborted in its final sweep, in its order: the trailing run of top-level
    sends with control ABORT (3) in the harness trace."""
    depth, tops = 0, []
    for e in trace:
        if e[2] == "send":
            if depth == 0:
                tops.append((e[3], e[4]))
            depth += 1
        elif e[2] in ("sent", "raised"):
            depth -= 1
    order = []
    for name, control in reversed(tops):
        if control != 3:
            break
        order.append(name)
    order.reverse()
    return order


def run_both(plan, crash_rec=None, fix_suspended_exit=True):
    prog = plan["program"]
    script = emit(prog)
    P = Fraction(plan["P"])
    et = env_table(plan.get("env"))
    capticks = plan.get("ticks", 50) + 12
    res = run_script(script, period=float(plan["P"]), env_table=et, crash_rec=crash_rec, cap=float(capticks * P) - float(P) / 4)
    model = Model(prog, P, env_table=et, max_ticks=capticks + 50, fix_suspended_exit=fix_suspended_exit,
                  sweep_order=impl_sweep_order(res.trace) if res.built else None)
    model.cap = capticks * P - P / 4
    merr = None
    try:
        model.run()
    except Exception as ex:   # a model crash is a harness problem, reported by the caller
        import traceback
        merr = traceback.format_exc()
    return script, res, model, merr


def first_difference(impl, model):
    n = min(len(impl), len(model))
    for i in range(n):
        if not same_event(impl[i], model[i]):
            return i
    if len(impl) != len(model):
        return n
    return None


def final_shares(res):
    vals = {}
    store = res.house.store
    for path in (".sim.x0", ".sim.x1", ".sim.x2", ".sim.x3"):
        sh = store.fetchShare(path)
        vals[path] = sh.value if sh is not None else None
    return vals
