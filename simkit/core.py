"""Seeds, sub-streams, event log / digest, outcome and violation records."""
import hashlib
import json
import random


def _h(text):
    return int.from_bytes(hashlib.sha256(text.encode()).digest()[:8], "big")


def run_seed(seed, prop, index):
    """64-bit seed of run `index` of property `prop` in the batch seeded `seed`."""
    return _h("%d:%s:%d" % (seed, prop, index))


class Streams(object):
    """Named independent PRNG sub-streams of one run seed.

    Drawing one more fault from 'fault' does not shift 'gen'.
    """

    def __init__(self, rseed):
        self.rseed = rseed
        self._s = {}

    def __getitem__(self, label):
        r = self._s.get(label)
        if r is None:
            r = self._s[label] = random.Random(_h("%d:%s" % (self.rseed, label)))
        return r

    def __getattr__(self, label):
        if label.startswith("_"):
            raise AttributeError(label)
        return self[label]


def canon(obj):
    """Canonical JSON-able form of plain data (bytes -> latin-1 text marker)."""
    if isinstance(obj, (bytes, bytearray)):
        return {"$b": bytes(obj).decode("latin-1")}
    if isinstance(obj, dict):
        return {str(k): canon(v) for k, v in obj.items()}
    if isinstance(obj, (list, tuple)):
        return [canon(v) for v in obj]
    if isinstance(obj, float):
        return obj if obj == obj and obj not in (float("inf"), float("-inf")) else repr(obj)
    if isinstance(obj, (str, int, bool)) or obj is None:
        return obj
    return repr(obj)


def uncanon(obj):
    if isinstance(obj, dict):
        if set(obj.keys()) == {"$b"}:
            return obj["$b"].encode("latin-1")
        return {k: uncanon(v) for k, v in obj.items()}
    if isinstance(obj, list):
        return [uncanon(v) for v in obj]
    return obj


def dumps(obj, **kw):
    return json.dumps(canon(obj), sort_keys=True, **kw)


class Trace(object):
    """Append-only event log of plain data; digest = SHA-256 of canonical JSON."""

    def __init__(self, keep=True):
        self.events = []
        self._h = hashlib.sha256()
        self.keep = keep
        self.n = 0

    def add(self, *ev):
        self.n += 1
        self._h.update(dumps(ev).encode())
        self._h.update(b"\n")
        if self.keep:
            self.events.append(ev)

    def digest(self):
        return self._h.hexdigest()[:24]


class Violation(object):
    """One oracle failure.  (property, kind, signature) is its class."""

    def __init__(self, kind, signature, detail="", plan=None):
        self.kind = kind
        self.signature = signature
        self.detail = detail
        self.plan = plan  # concrete failing plan when the executed plan enumerated sub-cases

    def cls(self):
        return (self.kind, self.signature)

    def to_json(self):
        return {"kind": self.kind, "signature": self.signature, "detail": self.detail}


class Outcome(object):
    def __init__(self):
        self.violations = []      # [Violation]
        self.digest = ""          # event-log digest
        self.state_digest = ""    # abstract-state-sequence digest (interleaving measure)
        self.faults = {}          # fault kind -> times fired
        self.probes = {}          # rare-condition probe -> hits
        self.sim_time = 0.0       # simulated seconds covered
        self.steps = 0            # scheduler steps / syscalls / ticks
        self.subruns = 1          # executions of the system inside this plan (fault enumeration)
        self.nontrivial = False

    def fault(self, kind, n=1):
        self.faults[kind] = self.faults.get(kind, 0) + n

    def probe(self, name, n=1):
        self.probes[name] = self.probes.get(name, 0) + n

    def violate(self, kind, signature, detail="", plan=None):
        self.violations.append(Violation(kind, signature, detail, plan))


class HarnessError(Exception):
    """The machinery, not the code under test, is at fault."""
