"""Batch driver: seeded search over plans, shrinking, replay, evidence, exit codes.

Exit codes: 0 held (KNOWN-FINDING lines possible) / 1 VIOLATION / 2 HARNESS-ERROR.
"""
import concurrent.futures as cf
import copy
import faulthandler
import fnmatch
import hashlib
import json
import multiprocessing
import os
import subprocess
import sys
import time
import traceback

from . import VERIF
from .core import Streams, run_seed, dumps, canon, uncanon, Outcome, HarnessError
from .shrink import shrink_plan

FORMAT = 1
MEM_CAP = 1200 << 20


class RunTimeout(BaseException):
    """Raised inside a run by the per-run watchdog (a hang in the code under test is a finding, not a harness error)."""


def _alarm(signum, frame):
    raise RunTimeout()


def _clear_registries():
    """ioflo keeps every Store / Tasker / Framer / Log ... ever created in class-level registries (Registrar.Names).
    A worker executing hundreds of thousands of runs would grow by about 10 KB per run and finally hit the address-space
    cap, which would then be misread as runaway allocation in the code under test.  Every run starts and ends with empty
    registries; this also makes automatically generated names independent of the runs executed before."""
    from ioflo.base import registering
    todo = [registering.Registrar]
    while todo:
        c = todo.pop()
        todo.extend(c.__subclasses__())
        if "Names" in c.__dict__:      # a class that shares its parent's registry must keep sharing it
            c.Clear()


def timed_execute(check, plan, _retry=True):
    """check.execute under a CPU-time watchdog and an address-space cap; a run that exceeds either is reported as a
    violation (kind 'hang' / 'memory'), not as a harness error.  The watchdog counts the process's own CPU time
    (ITIMER_PROF), not wall time: everything under test is simulated, so a genuine livelock burns CPU, while a worker
    that is merely descheduled on a loaded host must not be mistaken for one.  A watchdog hit is confirmed by executing
    the (deterministic) plan a second time; only a hit that repeats is reported.  Wall-clock stalls are left to the
    per-chunk faulthandler timeout, which is a HARNESS-ERROR."""
    import gc
    import resource
    import signal
    limit = getattr(check, "run_timeout", 20)
    old = signal.signal(signal.SIGPROF, _alarm)
    signal.setitimer(signal.ITIMER_PROF, limit)
    why = None
    soft, hard = resource.getrlimit(resource.RLIMIT_AS)
    try:    # the cap is room on top of what the worker already uses, so a long-lived worker cannot run into it by age alone
        with open("/proc/self/statm") as f:
            cur = int(f.read().split()[0]) * resource.getpagesize()
    except Exception:
        cur = 0
    cap = cur + MEM_CAP
    cap = cap if hard == resource.RLIM_INFINITY else min(cap, hard)
    try:
        # a runaway loop in the code under test must end in MemoryError / the watchdog, not in the OOM killer
        resource.setrlimit(resource.RLIMIT_AS, (cap, hard))
        _clear_registries()
        try:
            return check.execute(plan)
        finally:
            _clear_registries()
    except MemoryError:
        why = "memory"
    except RunTimeout:
        why = "hang"
    finally:
        signal.setitimer(signal.ITIMER_PROF, 0)
        signal.signal(signal.SIGPROF, old)
        resource.setrlimit(resource.RLIMIT_AS, (soft, hard))
    # the exception and the frames it kept alive are released here
    gc.collect()
    if _retry:
        return timed_execute(check, plan, _retry=False)
    out = Outcome()
    if why == "memory":
        out.violate("memory", "run allocated more than 1.2 GB (runaway allocation in the code under test)", "MemoryError")
    else:
        out.violate("hang", "run did not finish within %ds of CPU time (simulated steps are bounded, so the code under test loops)" % limit,
                    "plan executed for more than %d s of CPU time, twice" % limit)
    out.digest = "hang"
    return out


class Check(object):
    """Base class of a property check.  Subclasses fill these in."""
    pid = "C00"
    level = "exploration"
    engine = ""
    design_ref = ""
    rule = ""
    components = {"real": [], "stub": []}
    assumptions = []
    required_probes = []
    quick_runs = 1000
    thorough_runs = 20000
    shrink_fields = []        # plan keys holding lists to delta-debug, in order
    recheck_every = 101       # every n-th run is executed twice and digests compared
    chunk_timeout = 900

    def directed(self):
        """Seed-independent plans that hit every required probe."""
        return []

    def generate(self, S, index, tier):
        raise NotImplementedError

    def execute(self, plan):
        raise NotImplementedError

    def simplify(self, plan):
        """Optional extra shrink candidates (yield smaller plans)."""
        return ()

    def sample_view(self, plan):
        s = dumps({k: v for k, v in plan.items() if k not in ("expect",)})
        return json.loads(s) if len(s) < 4000 else {"abbreviated": s[:4000]}


def _header(check, seed, index, plan):
    p = {"property": check.pid, "engine": check.engine, "format": FORMAT,
         "seed": seed, "run_index": index}
    p.update(plan)
    return p


def make_plan(check, seed, index, tier):
    if index < 0:  # directed prefix
        d = check.directed()
        return _header(check, seed, index, copy.deepcopy(d[-index - 1]))
    S = Streams(run_seed(seed, check.pid, index))
    return _header(check, seed, index, check.generate(S, index, tier))


def _sd8(out):
    return out.state_digest[:12] if out.state_digest else out.digest[:12]


def _work(args):
    check, seed, tier, indices = args
    faulthandler.dump_traceback_later(check.chunk_timeout, exit=True)
    agg = {"n": 0, "subruns": 0, "faults": {}, "probes": {}, "sim_time": 0.0, "steps": 0,
           "sd_all": set(), "sd_nt": set(), "viol": [], "nviol": 0, "nondet": [], "samples": []}
    if os.environ.get("VERIF_DIGESTS"):
        agg["digests"] = []
    seen_cls = {}
    for index in indices:
        plan = make_plan(check, seed, index, tier)
        try:
            out = timed_execute(check, plan)
        except BaseException:
            return {"error": "index %d: %s" % (index, traceback.format_exc())}
        if check.recheck_every and index % check.recheck_every == 0 and out.digest != "hang":
            try:
                out2 = timed_execute(check, make_plan(check, seed, index, tier))
            except BaseException:
                return {"error": "index %d (recheck): %s" % (index, traceback.format_exc())}
            if out2.digest != out.digest and out2.digest != "hang":
                agg["nondet"].append(index)
        agg["n"] += 1
        if agg.get("digests") is not None:
            agg["digests"].append((index, out.digest, _sd8(out), bool(out.nontrivial), sorted(out.probes.items()), sorted(out.faults.items()), len(out.violations)))
        agg["subruns"] += out.subruns
        for k, v in out.faults.items():
            agg["faults"][k] = agg["faults"].get(k, 0) + v
        for k, v in out.probes.items():
            agg["probes"][k] = agg["probes"].get(k, 0) + v
        agg["sim_time"] += out.sim_time
        agg["steps"] += out.steps
        sd = _sd8(out)
        agg["sd_all"].add(sd)
        if out.nontrivial:
            agg["sd_nt"].add(sd)
        if len(agg["samples"]) < 1 and index >= 0:
            agg["samples"].append(check.sample_view(plan))
        for v in out.violations:
            agg["nviol"] += 1
            c = v.cls()
            if seen_cls.get(c, 0) < 2:
                seen_cls[c] = seen_cls.get(c, 0) + 1
                agg["viol"].append((index, canon(v.plan if v.plan is not None else plan), v.to_json()))
        if out.digest == "hang":
            agg["hang"] = True
            break   # one watchdog hit is enough for this chunk: the rest would only burn the chunk's wall budget
    faulthandler.cancel_dump_traceback_later()
    return agg


def load_findings():
    path = os.path.join(VERIF, "known_findings.json")
    if not os.path.exists(path):
        return {"findings": [], "fixed": []}
    with open(path) as f:
        return json.load(f)


def match_finding(findings, pid, kind, signature):
    for f in findings.get("findings", []):
        if f["property"] == pid and f["kind"] == kind and fnmatch.fnmatchcase(signature, f["signature"]):
            return f
    return None


def _merge(total, agg):
    total["n"] += agg["n"]
    total["subruns"] += agg["subruns"]
    for key in ("faults", "probes"):
        for k, v in agg[key].items():
            total[key][k] = total[key].get(k, 0) + v
    total["sim_time"] += agg["sim_time"]
    total["steps"] += agg["steps"]
    total["sd_all"] |= agg["sd_all"]
    total["sd_nt"] |= agg["sd_nt"]
    total["viol"].extend(agg["viol"])
    total["nviol"] += agg["nviol"]
    total["nondet"].extend(agg["nondet"])
    if agg.get("digests") is not None:
        total.setdefault("digests", []).extend(agg["digests"])
    if len(total["samples"]) < 3:
        total["samples"].extend(agg["samples"][:3 - len(total["samples"])])


def execute_classes(check, plan):
    out = timed_execute(check, plan)
    return out, [v.cls() for v in out.violations]


def write_evidence(check, tier, seed, total, wall, nviol, known, extra=None):
    if os.environ.get("VERIF_NO_EVIDENCE"):      # runs against a deliberately broken tree (self-tests, seeded changes)
        return [p for p in check.required_probes if not total["probes"].get(p)]
    os.makedirs(os.path.join(VERIF, "evidence"), exist_ok=True)
    n = max(total["n"], 1)
    holes = [p for p in check.required_probes if not total["probes"].get(p)]
    cov = {
        "evaluations": total["n"],
        "system_executions": total["subruns"],
        "distinct_nontrivial": len(total["sd_nt"]),
        "distinct_state_sequences": len(total["sd_all"]),
        "rule": check.rule,
        "samples": total["samples"] or [{"note": "no seeded sample"}],
        "runs_per_hour": int(total["subruns"] / max(wall, 1e-6) * 3600),
        "simulated_seconds": round(total["sim_time"], 3),
        "scheduler_steps": total["steps"],
        "faults_fired": dict(sorted(total["faults"].items())),
        "probes_hit": dict(sorted(total["probes"].items())),
        "coverage_holes": holes,
        "components": check.components,
        "directed_plans": len(check.directed()),
        "known_findings_reported": known,
        "exhaustive": False,
    }
    if extra:
        cov.update(extra)
    ev = {
        "property_id": check.pid, "tier": tier, "seed": seed, "level": check.level,
        "coverage": cov, "assumptions": list(check.assumptions), "wall_s": round(wall, 3),
        "violations": nviol,
    }
    path = os.path.join(VERIF, "evidence", "%s.json" % check.pid)
    with open(path + ".tmp", "w") as f:
        json.dump(ev, f, indent=1, sort_keys=True)
    os.replace(path + ".tmp", path)
    return holes


def run_batch(check, tier, seed, runs=None, workers=None, verbose=True):
    t0 = time.time()
    runs = runs if runs is not None else (check.quick_runs if tier == "quick" else check.thorough_runs)
    workers = workers or int(os.environ.get("VERIF_WORKERS", "0")) or min(16, os.cpu_count() or 1)
    nd = len(check.directed())
    indices = list(range(-nd, 0)) + list(range(runs))
    csize = max(1, min(2000, len(indices) // (workers * 6) + 1))
    chunks = [indices[i:i + csize] for i in range(0, len(indices), csize)]
    total = {"n": 0, "subruns": 0, "faults": {}, "probes": {}, "sim_time": 0.0, "steps": 0,
             "sd_all": set(), "sd_nt": set(), "viol": [], "nviol": 0, "nondet": [], "samples": []}
    errors = []
    if workers == 1:
        for ch in chunks:
            agg = _work((check, seed, tier, ch))
            if "error" in agg:
                errors.append(agg["error"])
                break
            _merge(total, agg)
    else:
        ctx = multiprocessing.get_context("fork")
        with cf.ProcessPoolExecutor(max_workers=workers, mp_context=ctx) as ex:
            futs = [ex.submit(_work, (check, seed, tier, ch)) for ch in chunks]
            deadline = time.time() + (1500 if tier == "quick" else 6 * 3600)
            try:
                for fu in futs:
                    if fu.cancelled():
                        continue
                    agg = fu.result(timeout=max(1, deadline - time.time()))
                    if "error" in agg:
                        errors.append(agg["error"])
                        break
                    _merge(total, agg)
                    if agg.get("hang"):
                        # a confirmed livelock costs two watchdog periods of CPU per run: what has been found is reported, the
                        # chunks that have not started yet are dropped (the verdict is a VIOLATION either way)
                        for fu2 in futs:
                            fu2.cancel()
            except (cf.TimeoutError, cf.process.BrokenProcessPool) as e:
                errors.append("worker died or timed out: %r" % (e,))
            if errors:
                for fu in futs:
                    fu.cancel()
                for p in list(getattr(ex, "_processes", {}).values()):
                    try:
                        p.kill()
                    except Exception:
                        pass
    if errors:
        print("HARNESS-ERROR property=%s %s" % (check.pid, errors[0]))
        return 2
    if total["nondet"]:
        print("HARNESS-ERROR property=%s nondeterministic runs=%s" % (check.pid, total["nondet"][:5]))
        return 2

    # classify violations; shrink and write one replay per class
    findings = load_findings()
    classes = {}
    for index, plan, vj in sorted(total["viol"], key=lambda x: (x[0] >= 0, abs(x[0]))):
        classes.setdefault((vj["kind"], vj["signature"]), (index, uncanon(plan), vj))
    rc = 0
    known_lines = []
    new = []
    for (kind, sig), (index, plan, vj) in sorted(classes.items()):
        f = match_finding(findings, check.pid, kind, sig)
        if f is not None:
            known_lines.append("KNOWN-FINDING: property=%s %s [%s / %s]" % (check.pid, f.get("what", ""), kind, sig))
        else:
            new.append((kind, sig, index, plan, vj))
    for line in sorted(set(known_lines)):
        print(line)
    os.makedirs(os.path.join(VERIF, "replays"), exist_ok=True)
    for kind, sig, index, plan, vj in new[:6]:
        small, tries = shrink_plan(check, plan, (kind, sig), *getattr(check, "shrink_budget", (300, 30.0)))
        out, cls = execute_classes(check, small)
        vv = [v for v in out.violations if v.cls() == (kind, sig)]
        if not vv:  # shrinking must preserve the class; fall back to the original
            small = plan
            out, cls = execute_classes(check, small)
            vv = [v for v in out.violations if v.cls() == (kind, sig)]
        if vv and vv[0].plan is not None:
            small = vv[0].plan
            out, cls = execute_classes(check, small)
        small = dict(small)
        small["expect"] = {"violation": {"kind": kind, "signature": sig,
                                         "detail": vv[0].detail if vv else vj["detail"]},
                           "digest": out.digest, "shrink_executions": tries,
                           "found_at_index": index}
        tag = hashlib.sha256(("%s|%s" % (kind, sig)).encode()).hexdigest()[:10]
        path = os.path.join(VERIF, "replays", "%s-%s-%d.json" % (check.pid, tag, seed))
        with open(path, "w") as f:
            f.write(dumps(small, indent=1))
        # replay once in a fresh interpreter; it must fail the same way
        r = subprocess.run([sys.executable, os.path.join(VERIF, "bin", "check"), check.pid, "--replay", path],
                           capture_output=True, text=True, timeout=300)
        if r.returncode != 1:
            print("HARNESS-ERROR property=%s replay-diverged %s rc=%d %s" % (check.pid, path, r.returncode, r.stdout[-400:]))
            return 2
        print("VIOLATION property=%s replay=%s" % (check.pid, path))
        print("  kind=%s signature=%s" % (kind, sig))
        print("  detail=%s" % (small["expect"]["violation"]["detail"][:600],))
        rc = 1
    for kind, sig, index, plan, vj in new[6:]:
        print("VIOLATION-CLASS-NOT-MINIMISED property=%s kind=%s signature=%s index=%d" % (check.pid, kind, sig, index))
        rc = 1
    if os.environ.get("VERIF_DIGESTS"):
        with open(os.environ["VERIF_DIGESTS"], "w") as f:
            json.dump(sorted(total.get("digests", [])), f)
    wall = time.time() - t0
    newcls = set((k, g) for k, g, _i, _p, _v in new)
    if not newcls:
        n_new, n_known = 0, total["nviol"]
    elif not known_lines:
        n_new, n_known = total["nviol"], 0
    else:   # mixed: the kept list of violating runs is capped per worker chunk, so these are lower bounds
        n_new = sum(1 for _i, _p, vj in total["viol"] if (vj["kind"], vj["signature"]) in newcls)
        n_known = len(total["viol"]) - n_new
    holes = write_evidence(check, tier, seed, total, wall, n_new, sorted(set(known_lines)),
                           extra={"runs_showing_a_known_finding": n_known})
    for h in holes:
        print("COVERAGE-HOLE property=%s probe=%s" % (check.pid, h))
    if verbose:
        print("%s tier=%s seed=%d plans=%d executions=%d distinct=%d nontrivial-distinct=%d sim_s=%.1f wall=%.1fs violations=%d classes=%d new=%d"
              % (check.pid, tier, seed, total["n"], total["subruns"], len(total["sd_all"]), len(total["sd_nt"]),
                 total["sim_time"], wall, total["nviol"], len(classes), len(new)))
    return rc


def replay(check, path):
    with open(path) as f:
        plan = uncanon(json.load(f))
    exp = plan.get("expect", {})
    out = timed_execute(check, plan)
    want = exp.get("violation")
    got = [v for v in out.violations]
    if want:
        same = [v for v in got if v.kind == want["kind"] and v.signature == want["signature"]]
        if same and (not exp.get("digest") or exp["digest"] == out.digest):
            print("VIOLATION property=%s replay=%s" % (check.pid, path))
            print("  kind=%s signature=%s" % (same[0].kind, same[0].signature))
            print("  detail=%s" % (same[0].detail[:2000],))
            return 1
        if same:
            print("HARNESS-ERROR property=%s replay-diverged digest %s != %s" % (check.pid, out.digest, exp.get("digest")))
            return 2
        if got:
            print("REPLAY property=%s different violation: %s" % (check.pid, [v.to_json() for v in got][:3]))
            return 1
        print("REPLAY property=%s no violation (expected %s / %s)" % (check.pid, want["kind"], want["signature"]))
        return 0
    for v in got:
        print("VIOLATION property=%s replay=%s" % (check.pid, path))
        print("  kind=%s signature=%s\n  detail=%s" % (v.kind, v.signature, v.detail[:2000]))
    return 1 if got else 0


def main(argv=None):
    import argparse
    import importlib
    ap = argparse.ArgumentParser()
    ap.add_argument("pid")
    ap.add_argument("--tier", default=os.environ.get("VERIF_TIER", "quick"))
    ap.add_argument("--replay")
    ap.add_argument("--runs", type=int, default=int(os.environ.get("VERIF_RUNS", "0")) or None)
    ap.add_argument("--workers", type=int)
    ap.add_argument("--index", type=int, help="execute one generated run index and print its outcome")
    a = ap.parse_args(argv)
    seed = int(os.environ.get("VERIF_SEED", "0") or 0)

    try:
        mod = importlib.import_module("checks.%s" % a.pid.lower())
        check = mod.CHECK
    except Exception:
        print("HARNESS-ERROR property=%s cannot load check: %s" % (a.pid, traceback.format_exc()))
        return 2
    try:
        if a.replay:
            return replay(check, a.replay)
        if a.index is not None:
            plan = make_plan(check, seed, a.index, a.tier)
            print(dumps(plan, indent=1))
            out = check.execute(plan)
            print("digest", out.digest, "state", out.state_digest, "faults", out.faults, "probes", out.probes)
            for v in out.violations:
                print("VIOLATION", v.to_json())
            return 1 if out.violations else 0
        return run_batch(check, a.tier, seed, runs=a.runs, workers=a.workers)
    except HarnessError as e:
        print("HARNESS-ERROR property=%s %s" % (a.pid, e))
        return 2
    except Exception:
        print("HARNESS-ERROR property=%s %s" % (a.pid, traceback.format_exc()))
        return 2
