"""Delta debugging over the explicit plan: keep a candidate only if it fails with the same class."""
import copy
import time


def _get(plan, path):
    cur = plan
    for p in path:
        cur = cur[p]
    return cur


def _set(plan, path, val):
    new = copy.deepcopy(plan)
    cur = new
    for p in path[:-1]:
        cur = cur[p]
    cur[path[-1]] = val
    return new


def shrink_plan(check, plan, cls, max_exec=300, max_s=30.0):
    t0 = time.time()
    tries = [0]

    def fails(p):
        if tries[0] >= max_exec or time.time() - t0 > max_s:
            return False
        tries[0] += 1
        try:
            from .driver import timed_execute
            out = timed_execute(check, p)
        except BaseException:
            return False
        return any(v.cls() == cls for v in out.violations)

    best = plan
    changed = True
    rounds = 0
    while changed and rounds < 4:
        changed = False
        rounds += 1
        for field in check.shrink_fields:
            path = field.split(".") if isinstance(field, str) else list(field)
            try:
                seq = _get(best, path)
            except (KeyError, IndexError, TypeError):
                continue
            if not isinstance(seq, list) or not seq:
                continue
            n = 2
            while len(seq) >= 1 and tries[0] < max_exec:
                chunk = max(1, len(seq) // n)
                reduced = False
                i = 0
                while i < len(seq):
                    cand_seq = seq[:i] + seq[i + chunk:]
                    cand = _set(best, path, cand_seq)
                    if fails(cand):
                        best, seq = cand, cand_seq
                        reduced = changed = True
                    else:
                        i += chunk
                if not reduced:
                    if chunk == 1:
                        break
                    n = min(len(seq), n * 2)
                elif len(seq) == 0:
                    break
        progress = True
        while progress and tries[0] < max_exec and time.time() - t0 <= max_s:
            progress = False
            for cand in check.simplify(best):
                if fails(cand):
                    best = cand
                    changed = progress = True
                    break
    return best, tries[0]
