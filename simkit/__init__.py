"""simkit: the deterministic-simulation kernel shared by every check.

One integer (VERIF_SEED) decides everything: run seeds are derived from it by
SHA-256, every run draws from named sub-streams derived from its run seed, the
generated *plan* is explicit JSON and is the replay file, and executing a plan
is a pure function of the plan and the code under /repo.
"""
import collections.abc  # noqa: F401  (ioflo/aid/osetting.py needs it pre-imported; that is C01, not claimed)
import os
import sys

REPO = os.environ.get("VERIF_REPO", "/repo")
if REPO not in sys.path:
    sys.path.insert(0, REPO)
VERIF = os.path.dirname(os.path.dirname(os.path.abspath(__file__)))
