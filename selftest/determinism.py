#!/venv/bin/python
"""Determinism self-test: every check, the same VERIF_SEED values executed several times in fresh
interpreters under different PYTHONHASHSEED values and worker counts; the per-run event-log
digests must be identical.  usage: selftest/determinism.py [PID ...] [--runs N]
Writes selftest/determinism.json."""
import glob
import json
import os
import subprocess
import sys
import tempfile

VERIF = os.path.dirname(os.path.dirname(os.path.abspath(__file__)))
CONFIGS = [("0", "16"), ("1", "16"), ("12345", "3"), ("random", "7")]


def run(pid, seed, hashseed, workers, runs):
    fd, path = tempfile.mkstemp(prefix="verif-det-", suffix=".json")
    os.close(fd)
    env = dict(os.environ, VERIF_SEED=str(seed), VERIF_DIGESTS=path, VERIF_WORKERS=workers, VERIF_NO_EVIDENCE="1")
    cmd = ["/venv/bin/python", "-W", "ignore", "-c",
           "import sys; sys.path.insert(0, %r); from simkit.driver import main; sys.exit(main())" % VERIF, pid]
    if runs:
        cmd += ["--runs", str(runs)]
    env["PYTHONHASHSEED"] = hashseed
    r = subprocess.run(cmd, env=env, cwd=VERIF, capture_output=True, text=True, timeout=3600)
    try:
        d = json.load(open(path))
    except Exception:
        d = None
    os.unlink(path)
    return r.returncode, d, r.stdout[-300:]


def main():
    args = [a for a in sys.argv[1:] if not a.startswith("--")]
    runs = None
    if "--runs" in sys.argv:
        runs = int(sys.argv[sys.argv.index("--runs") + 1])
        args = [a for a in args if a != str(runs)]
    pids = [a.upper() for a in args] or sorted(os.path.basename(p)[:-3].upper() for p in glob.glob(os.path.join(VERIF, "checks", "c[0-9][0-9].py")))
    results = {}
    bad = 0
    for pid in pids:
        per_seed = {}
        ok = True
        why = ""
        n = 0
        for seed in (0, 7):
            ref = None
            for hs, w in CONFIGS:
                rc, d, tail = run(pid, seed, hs, w, runs)
                if d is None or rc not in (0, 1):
                    ok, why = False, "rc=%s %s" % (rc, tail)
                    break
                n = len(d)
                if ref is None:
                    ref = d
                elif d != ref:
                    diff = [a for a, b in zip(ref, d) if a != b][:3]
                    ok, why = False, "digests differ (seed %d, PYTHONHASHSEED=%s workers=%s): %r" % (seed, hs, w, diff)
                    break
            if not ok:
                break
        results[pid] = {"ok": ok, "runs_per_config": n, "configs": len(CONFIGS), "seeds": 2, "why": why}
        print("%-4s %s runs=%d x %d configs x 2 seeds %s" % (pid, "ok" if ok else "NONDETERMINISTIC", n, len(CONFIGS), why))
        bad += 0 if ok else 1
    path = os.path.join(VERIF, "selftest", "determinism.json")
    old = json.load(open(path)) if os.path.exists(path) else {}
    old.update(results)
    json.dump(old, open(path, "w"), indent=1, sort_keys=True)
    return 1 if bad else 0


if __name__ == "__main__":
    sys.exit(main())
