"""Deliberate breakages used by selftest/sensitivity.py.  Each: pid, name, edits [(path, old, new)]."""
T = "ioflo/aid/timing.py"
CL = "ioflo/aio/tcp/clienting.py"
SV = "ioflo/aio/tcp/serving.py"
HT = "ioflo/aio/http/httping.py"
HC = "ioflo/aio/http/clienting.py"
HS = "ioflo/aio/http/serving.py"
ST = "ioflo/aio/proto/stacking.py"

MUTANTS = [
    # C42
    {"pid": "C42", "name": "timer-expired-gt", "edits": [(T, "        if (time.time() >= self.stop):", "        if (time.time() > self.stop):")]},
    {"pid": "C42", "name": "mono-shift-only-start", "edits": [(T, "            self.stop = self.stop + delta\n", "")]},
    {"pid": "C42", "name": "storetimer-repeat-from-now", "edits": [(T, "        return self.restart(start = self.stop)", "        return self.restart()")]},
    {"pid": "C42", "name": "neg-control-comment", "negative": True, "edits": [(T, "class Timer(object):", "class Timer(object):  # control")]},
    # C24
    {"pid": "C24", "name": "client-append-instead-of-appendleft", "edits": [(CL, "self.txes.appendleft(data[count:])", "self.txes.append(data[count:])")]},
    {"pid": "C24", "name": "incomer-off-by-one-requeue", "edits": [(SV, "self.txes.appendleft(data[count:])", "self.txes.appendleft(data[count+1:])")]},
    {"pid": "C24", "name": "client-log-whole-data", "edits": [(CL, "                self.wlog.writeTx(self.ha, data[:result])", "                self.wlog.writeTx(self.ha, data)")]},
    {"pid": "C24", "name": "serial-drop-unsent", "edits": [("ioflo/aio/serial/serialing.py", "            self.txes.appendleft(data[count:])\n            return False", "            return False")]},
    # C25
    {"pid": "C25", "name": "client-recv-drop-ETIMEDOUT", "edits": [(CL, "                                errno.ETIMEDOUT,\n                                errno.ECONNREFUSED):\n                emsg = (\"socket.error = {0}: Outgoer at {1} while receiving", "                                errno.ECONNREFUSED):\n                emsg = (\"socket.error = {0}: Outgoer at {1} while receiving")]},
    {"pid": "C25", "name": "incomer-send-swallow-all", "edits": [(SV, "                emsg = (\"socket.error = {0}: Incomer at {1} while \"\n                        \"sending to {2}\\n\".format(ex, self.ha, self.ca))\n                console.profuse(emsg)\n                raise", "                result = 0")]},
    {"pid": "C25", "name": "gramstack-tx-fatal", "edits": [(ST, "                laters.append((pkt, ha))\n                blockeds.append(ha)\n            else:\n                raise", "                raise\n            else:\n                raise")]},
    # C26
    {"pid": "C26", "name": "server-skip-stale-shutdown", "edits": [(SV, "                self.shutdownIx(ca)\n            self.ixes[ca] = incomer", "                pass\n            self.ixes[ca] = incomer")]},
    {"pid": "C26", "name": "removeix-no-close", "edits": [(SV, "        if shutclose:\n            self.ixes[ca].shutclose()", "        if False:\n            self.ixes[ca].shutclose()")]},
    # C27
    {"pid": "C27", "name": "never-restart-timer-no-reopen", "edits": [(CL, "                if self.timeout > 0.0 and self.timer.expired:  # timed out\n                    self.reopen()", "                if False:\n                    self.reopen()")]},
    {"pid": "C27", "name": "accept-wrong-ca", "edits": [(CL, "        self.ca = self.cs.getsockname()  # resolved local connection address", "        self.ca = self.ha")]},
    {"pid": "C27", "name": "patron-reopen-nonreconnectable", "edits": [(HC, "            if self.connector.reconnectable:  # useful for server sent event stream", "            if True:")]},
    # C29
    {"pid": "C29", "name": "response-length-body-eats-rest", "edits": [(HC, "            self.body = self.msg[:self.length]\n            del self.msg[:self.length]", "            self.body = self.msg[:self.length]\n            del self.msg[:]")]},
    {"pid": "C29", "name": "chunk-data-waits-only-once", "edits": [(HT, "        while len(raw) < size:  # need more for chunk\n            (yield None)", "        if len(raw) < size:  # need more for chunk\n            (yield None)")]},
    {"pid": "C29", "name": "chunk-size-base10", "edits": [(HT, "        size = int(size.strip().decode('ascii'), 16)", "        size = int(size.strip().decode('ascii'), 10)")]},
    # C33
    {"pid": "C33", "name": "parseline-no-crlf-skip", "edits": [(HT, "        if crlfable and eol == CR and index == len(raw):\n            skip = True", "        pass")]},
    {"pid": "C33", "name": "sse-strip-all-leading-spaces", "edits": [(HT, "            if value and value[0:1] == b' ':\n                del value[0]", "            value = value.lstrip()")]},
    {"pid": "C33", "name": "sse-id-not-persistent", "edits": [(HT, "                ename = u''\n                edata = u''\n                parts = []\n                ejson = None\n                continue", "                ename = u''\n                edata = u''\n                parts = []\n                ejson = None\n                eid = None\n                continue")]},
    # C31
    {"pid": "C31", "name": "responder-reset-leaves-headed", "edits": [(HS, "        self.started = False\n        self.headed = False\n        self.chunked = False\n        self.ended = False\n        self.iterator = None", "        self.started = False\n        self.chunked = False\n        self.ended = False\n        self.iterator = None")]},
    {"pid": "C31", "name": "patron-waited-never-cleared", "edits": [(HC, "                        self.responses.append(response)\n                        self.waited = False", "                        self.responses.append(response)")]},
    {"pid": "C31", "name": "responder-reset-chunkable-none", "edits": [(HS, "                        responder.reset(environ=environ, chunkable=chunkable)", "                        responder.reset(environ=environ)")]},
    {"pid": "C29", "name": "requestant-body-eats-next-byte", "edits": [(HS, "            self.body = self.msg[:self.length]\n            del self.msg[:self.length]", "            self.body = self.msg[:self.length]\n            del self.msg[:self.length + (1 if self.length else 0)]")]},
    # C28
    {"pid": "C28", "name": "incomer-refresh-only-on-rx", "edits": [(SV, "                self.wlog.writeTx(self.ca, data[:result])\n\n            if self.refreshable:\n                self.refresh()\n\n        return result\n\n    def tx(self, data):", "                self.wlog.writeTx(self.ca, data[:result])\n\n        return result\n\n    def tx(self, data):")]},
    {"pid": "C28", "name": "persisted-timeout-not-disabled", "edits": [(HS, "            self.incomer.timeout =  0.0  # never timesout", "            pass")]},
    {"pid": "C28", "name": "incomertls-no-refresh-on-send", "edits": [(SV, "            if self.refreshable:\n                self.refresh()\n\n        return result\n\n\nclass Acceptor", "        return result\n\n\nclass Acceptor")]},
    {"pid": "C28", "name": "neg-control-expired-ge-vs-gt", "negative": True, "edits": [(HS, "class Valet(object):", "class Valet(object):  # control")]},
    # C32
    {"pid": "C32", "name": "valet-lets-parse-errors-escape", "edits": [(HS, "                except httping.HTTPException as ex:  # this may be superfluous", "                except KeyError as ex:  # this may be superfluous"), (HT, "        except HTTPException as ex:\n            self.errored = True\n            self.error = str(ex)\n\n        self.ended = True\n        self.started = False", "        except KeyError as ex:\n            self.errored = True\n            self.error = str(ex)\n\n        self.ended = True\n        self.started = False")]},
    {"pid": "C32", "name": "chunk-end-valueerror", "edits": [(HT, '            raise HTTPException("Chunk end error. Expected empty got "', '            raise ValueError("Chunk end error. Expected empty got "')]},
    {"pid": "C32", "name": "errored-request-served-anyway-and-kept", "edits": [(HS, "                    if requestant.errored:  # parse may swallow error but set .errored and .error\n                        sys.stderr.write(requestant.error)\n                        self.closeConnection(ca)\n                        continue", "                    if requestant.errored:  # parse may swallow error but set .errored and .error\n                        for xca in list(self.reqs.keys()):\n                            self.closeConnection(xca)\n                        continue")]},
    # C30
    {"pid": "C30", "name": "query-quote-instead-of-quote-plus", "edits": [(HT, '    qargParts = [u"{0}={1}".format(key, quote_plus(str(val)))', '    qargParts = [u"{0}={1}".format(key, quote(str(val), safe="&= "))')]},
    {"pid": "C30", "name": "packheader-no-titlecase-drops-value-part", "edits": [(HT, "    value = b', '.join(values)\n    return (name + b': ' + value)", "    value = b', '.join(values)\n    return (name + b': ' + value.replace(b';', b','))")]},
    {"pid": "C30", "name": "server-unquotes-query", "edits": [(HS, "        self.query = pathSplits.query  # WSGI spec leaves it quoted do not unquote", "        self.query = unquote(pathSplits.query)")]},
    {"pid": "C30", "name": "httperror-length-chars-not-bytes", "edits": [(HS, "                    headers['content-length'] = str(len(msg))", "                    headers['content-length'] = str(len(msg.decode('iso-8859-1').encode('utf-8')))")]},
    # C34
    {"pid": "C34", "name": "redirect-allows-downgrade", "edits": [(HC, "                if self.requester.scheme == 'https' and scheme != 'https':", "                if False:")]},
    {"pid": "C34", "name": "redirect-drops-query", "edits": [(HC, "            qargs, query = httping.updateQargsQuery(qargs, query)\n\n            self.transmit(method=method, path=path, qargs=qargs, fragment=fragment)", "            self.transmit(method=method, path=path, qargs=qargs, fragment=fragment)")]},
    {"pid": "C34", "name": "redirects-not-cleared-or-carried", "edits": [(HC, "                            response['redirects'] = copy.copy(self.redirects)", "                            response['redirects'] = copy.copy(self.redirects[:1])")]},
    {"pid": "C34", "name": "redirect-same-host-new-port-not-reconnected", "edits": [(HC, "            if ha != self.connector.ha or scheme != self.requester.scheme:", "            if ha[0] != self.connector.ha[0] or scheme != self.requester.scheme:")]},
    # C35
    {"pid": "C35", "name": "gramstack-blocked-ends-pass", "edits": [(ST, "            return True  # only this destination is blocked so keep going with others", "            return False")]},
    {"pid": "C35", "name": "gramstack-drop-failed-packet", "edits": [(ST, "                laters.append((pkt, ha))\n                blockeds.append(ha)", "                blockeds.append(ha)")]},
    {"pid": "C35", "name": "gramstack-laters-to-front", "edits": [(ST, "            while laters:\n                self.txPkts.append(laters.popleft())\n\n    def serviceTxPktsOnce", "            while laters:\n                self.txPkts.appendleft(laters.popleft())\n\n    def serviceTxPktsOnce")]},
    # C36
    {"pid": "C36", "name": "clientstack-drops-unsent-rest", "edits": [(ST, "        if count < len(self.txbs):  # partially blocked try again later\n            del self.txbs[:count]  # delete sent portion\n            return False", "        if count < len(self.txbs):  # partially blocked try again later\n            self.clearTxbs()\n            return False")]},
    {"pid": "C36", "name": "serverstack-rx-deletes-too-little", "edits": [(ST, "        del ix.rxbs[:packet.size]\n        self.rxPkts.append((packet, ca))  # queue packet", "        del ix.rxbs[:max(0, packet.size - 1)]\n        self.rxPkts.append((packet, ca))  # queue packet")]},
    {"pid": "C36", "name": "serverstack-tx-to-first-ix", "edits": [(ST, "            self.handler.transmitIx(pkt.packed, ca)", "            self.handler.transmitIx(pkt.packed, self.handler.ixes.keys()[0])")]},
    # C38
    {"pid": "C38", "name": "redo-uses-repeat-bursts", "edits": [("ioflo/aio/proto/exchanging.py", "            self.redoTimer.restart()\n            console.verbose(\"{0}: Redoing", "            self.redoTimer.repeat()\n            console.verbose(\"{0}: Redoing")]},
    {"pid": "C38", "name": "timeout-zero-expires", "edits": [("ioflo/aio/proto/exchanging.py", "        if self.timeout > 0.0 and self.timer.expired:", "        if self.timer.expired:")]},
    {"pid": "C38", "name": "start-does-not-restart-timer", "edits": [("ioflo/aio/proto/exchanging.py", "        self.timer.restart()\n        self.redoTimer.restart()\n        console.verbose(\"{0}: Initiating", "        self.redoTimer.restart()\n        console.verbose(\"{0}: Initiating")]},
    # C19
    {"pid": "C19", "name": "create-stamps-unconditionally", "edits": [("ioflo/base/storing.py", "        if update:\n            try:\n                self.stamp = self.store.stamp", "        if True:\n            try:\n                self.stamp = self.store.stamp")]},
    {"pid": "C19", "name": "change-stamps", "edits": [("ioflo/base/storing.py", "        for k,v in kwa.items():\n            setattr(self._data, k, v)\n        return self\n\n    def update", "        for k,v in kwa.items():\n            setattr(self._data, k, v)\n        self.stampNow()\n        return self\n\n    def update")]},
    {"pid": "C19", "name": "gulp-accepts-none", "edits": [("ioflo/base/storing.py", "        if elem is not None:\n            self.append(elem)", "        self.append(elem)")]},
    {"pid": "C19", "name": "pull-from-wrong-end", "edits": [("ioflo/base/storing.py", "    pull = deque.popleft  # alias", "    pull = deque.pop  # alias")]},
    # C02
    {"pid": "C02", "name": "retime-from-run-time", "edits": [("ioflo/base/skedding.py", "                                                  reckon[0] + reckon[1] * reckon[2],", "                                                  stamp + tasker.period,")]},
    {"pid": "C02", "name": "due-comparison-ge", "edits": [("ioflo/base/skedding.py", "                        if retime > stamp + slop: #not time yet", "                        if retime >= stamp - slop and retime > 0: #not time yet")]},
    {"pid": "C02", "name": "aborted-tasker-rescheduled", "edits": [("ioflo/base/skedding.py", "                                if status == ABORTED: #aborted so abort tasker\n                                    aborted.append((tasker, stamp, period))", "                                if status == ABORTED and False: #aborted so abort tasker\n                                    aborted.append((tasker, stamp, period))")]},
    {"pid": "C02", "name": "float-accumulation-restored", "edits": [("ioflo/base/skedding.py", "                    self.stamp = start + ticks * self.period", "                    self.stamp += self.period"), ("ioflo/base/skedding.py", "        slop = self.period * 1e-9  # tolerance for float rounding in comparison", "        slop = 0.0")]},
    {"pid": "C02", "name": "period-bid-ignored-until-restart", "edits": [("ioflo/base/skedding.py", "                                    if reckon is None or reckon[2] != tasker.period:", "                                    if reckon is None:")]},
]
