#!/venv/bin/python
"""Fidelity self-test of the fakes (the trusted base of the network and disk checks): a scripted
list of scenarios is run against the real loopback stack / a real temporary directory and against
the fake, and the observable results are compared.  Not a registered check (it uses real sockets,
sleeps and files on purpose).  Writes selftest/fidelity.json.
"""
import errno
import json
import os
import shutil
import socket as real_socket
import sys
import tempfile
import time

VERIF = os.path.dirname(os.path.dirname(os.path.abspath(__file__)))
sys.path.insert(0, VERIF)
import simkit  # noqa
from substrate.net import Net
from substrate.fs import SimFS

E = errno.errorcode


class Real(object):
    name = "real"

    def __init__(self):
        self.mod = real_socket

    def settle(self):
        time.sleep(0.05)

    def free_port(self):
        s = real_socket.socket()
        s.bind(("127.0.0.1", 0))
        p = s.getsockname()[1]
        s.close()
        return p


class Fake(object):
    name = "fake"

    def __init__(self):
        self.net = Net(cap=1 << 16)
        self.mod = self.net.module("t")
        self.port = 40000

    def settle(self):
        self.net.deliver_all()

    def free_port(self):
        self.port += 1
        return self.port


def code(fn, *a):
    try:
        r = fn(*a)
        return r if not isinstance(r, int) or r == 0 else E.get(r, r)
    except OSError as ex:
        return "raise " + E.get(ex.errno, str(ex.errno))


def norm_eagain(x):
    return x.replace("EWOULDBLOCK", "EAGAIN") if isinstance(x, str) else x


def listener(w, port):
    s = w.mod.socket(real_socket.AF_INET, real_socket.SOCK_STREAM)
    s.setsockopt(real_socket.SOL_SOCKET, real_socket.SO_REUSEADDR, 1)
    s.bind(("127.0.0.1", port))
    s.listen(5)
    s.setblocking(0)
    return s


def client(w):
    c = w.mod.socket(real_socket.AF_INET, real_socket.SOCK_STREAM)
    c.setblocking(0)
    return c


def connected_pair(w):
    port = w.free_port()
    l = listener(w, port)
    c = client(w)
    c.connect_ex(("127.0.0.1", port))
    w.settle()
    c.connect_ex(("127.0.0.1", port))
    w.settle()
    s, ca = l.accept()
    s.setblocking(0)
    return l, c, s, ca


def sc_refused(w):
    port = w.free_port()
    c = client(w)
    seq = []
    for i in range(3):
        seq.append(code(c.connect_ex, ("127.0.0.1", port)))
        w.settle()
    return seq


def sc_connect_accept(w):
    port = w.free_port()
    l = listener(w, port)
    c = client(w)
    seq = [code(c.connect_ex, ("127.0.0.1", port))]
    w.settle()
    seq.append(code(c.connect_ex, ("127.0.0.1", port)))
    w.settle()
    seq.append(code(c.connect_ex, ("127.0.0.1", port)))
    s, ca = l.accept()
    return seq + [ca == c.getsockname(), s.getpeername() == c.getsockname(), c.getpeername()[1] == port]


def sc_accept_empty(w):
    l = listener(w, w.free_port())
    return [norm_eagain(code(l.accept))]


def sc_recv_empty(w):
    l, c, s, ca = connected_pair(w)
    return [norm_eagain(code(c.recv, 10)), norm_eagain(code(s.recv, 10))]


def sc_eof_after_close(w):
    l, c, s, ca = connected_pair(w)
    c.send(b"abc")
    w.settle()
    c.close()
    w.settle()
    return [code(s.recv, 10), code(s.recv, 10), code(s.recv, 10)]


def sc_reset_with_unread(w):
    l, c, s, ca = connected_pair(w)
    s.send(b"unread")
    w.settle()
    c.close()          # closing with unread data aborts the connection
    w.settle()
    return [code(s.recv, 10), code(s.recv, 10)]


def sc_send_after_peer_closed(w):
    l, c, s, ca = connected_pair(w)
    c.close()
    w.settle()
    first = code(s.send, b"x")
    w.settle()
    second = code(s.send, b"y")
    w.settle()
    return [first if not isinstance(first, int) else "ok", second]


def sc_fill_buffer(w):
    l, c, s, ca = connected_pair(w)
    last = None
    total = 0
    for i in range(100000):
        r = code(c.send, b"z" * 65536)
        if isinstance(r, str):
            last = norm_eagain(r)
            break
        total += r
    return [last, total > 0]


def sc_recv_notconn(w):
    c = client(w)
    return [code(c.recv, 10)]


def sc_shutdown_after_reset(w):
    l, c, s, ca = connected_pair(w)
    s.send(b"unread")
    w.settle()
    c.close()          # closing with unread data aborts the connection: the server side receives an RST
    w.settle()
    return [code(s.shutdown, real_socket.SHUT_RDWR), code(s.shutdown, real_socket.SHUT_RDWR)]


def sc_shutdown_after_fin(w):
    l, c, s, ca = connected_pair(w)
    c.close()
    w.settle()
    return [code(s.shutdown, real_socket.SHUT_RDWR), code(s.shutdown, real_socket.SHUT_RDWR)]


def sc_shutdown_healthy_twice(w):
    l, c, s, ca = connected_pair(w)
    return [code(s.shutdown, real_socket.SHUT_RDWR), code(s.shutdown, real_socket.SHUT_RDWR)]


SOCKET_SCENARIOS = [sc_shutdown_after_reset, sc_shutdown_after_fin, sc_shutdown_healthy_twice, sc_refused, sc_connect_accept, sc_accept_empty, sc_recv_empty, sc_eof_after_close, sc_reset_with_unread,
                    sc_send_after_peer_closed, sc_fill_buffer, sc_recv_notconn]


# ---- file system -------------------------------------------------------------------------------
class RealFs(object):
    name = "real"

    def __init__(self):
        self.root = tempfile.mkdtemp(prefix="verif-fid-")
        self.os = os
        self.open = open

    def close(self):
        shutil.rmtree(self.root, ignore_errors=True)


class FakeFs(object):
    name = "fake"

    def __init__(self):
        self.root = "/simfid"
        self.os = SimFS()
        self.os.makedirs(self.root)
        self.open = self.os.builtin_open

    def close(self):
        pass


def fs_excl_create(w):
    p = os.path.join(w.root, "a.txt")
    fd = w.os.open(p, os.O_EXCL | os.O_CREAT | os.O_RDWR, 436)
    f = w.os.fdopen(fd, "w+")
    f.write("one\n")
    f.close()
    try:
        w.os.open(p, os.O_EXCL | os.O_CREAT | os.O_RDWR, 436)
        second = "ok"
    except OSError as ex:
        second = E.get(ex.errno)
    return [second, w.os.path.exists(p), w.os.path.getsize(p)]


def fs_getsize_before_after_flush(w):
    p = os.path.join(w.root, "b.txt")
    f = w.open(p, "a+")
    f.write("12345")
    before = w.os.path.getsize(p)
    f.flush()
    after = w.os.path.getsize(p)
    f.close()
    return [before, after]


def fs_append_after_reopen(w):
    p = os.path.join(w.root, "c.txt")
    f = w.open(p, "a+")
    f.write("ab")
    f.close()
    f = w.open(p, "a+")
    f.write("cd")
    f.close()
    return [w.os.path.getsize(p)]


def fs_rename_over(w):
    p, q = os.path.join(w.root, "d.txt"), os.path.join(w.root, "e.txt")
    for path, text in ((p, "new"), (q, "oldold")):
        f = w.open(path, "a+")
        f.write(text)
        f.close()
    w.os.rename(p, q)
    return [w.os.path.exists(p), w.os.path.getsize(q)]


def fs_truncate_on_w(w):
    p = os.path.join(w.root, "f.txt")
    f = w.open(p, "a+")
    f.write("abcdef")
    f.close()
    f = w.open(p, "w+")
    f.write("x")
    f.close()
    return [w.os.path.getsize(p)]


def fs_rename_missing(w):
    try:
        w.os.rename(os.path.join(w.root, "nope"), os.path.join(w.root, "nope2"))
        return ["ok"]
    except OSError as ex:
        return [E.get(ex.errno)]


FS_SCENARIOS = [fs_excl_create, fs_getsize_before_after_flush, fs_append_after_reopen, fs_rename_over, fs_truncate_on_w, fs_rename_missing]


def main():
    results = []
    bad = 0
    for sc in SOCKET_SCENARIOS:
        r = sc(Real())
        f = sc(Fake())
        ok = r == f
        bad += 0 if ok else 1
        results.append({"scenario": sc.__name__, "real": r, "fake": f, "ok": ok})
        print("%-28s %s real=%r fake=%r" % (sc.__name__, "ok" if ok else "DIFFERS", r, f))
    for sc in FS_SCENARIOS:
        a, b = RealFs(), FakeFs()
        try:
            r, f = sc(a), sc(b)
        finally:
            a.close()
        ok = r == f
        bad += 0 if ok else 1
        results.append({"scenario": sc.__name__, "real": r, "fake": f, "ok": ok})
        print("%-28s %s real=%r fake=%r" % (sc.__name__, "ok" if ok else "DIFFERS", r, f))
    json.dump(results, open(os.path.join(VERIF, "selftest", "fidelity.json"), "w"), indent=1, default=repr)
    return 1 if bad else 0


if __name__ == "__main__":
    sys.exit(main())
