#!/venv/bin/python
"""Sensitivity self-test: each deliberate breakage (a textual edit of a scratch copy of /repo,
made outside /repo and /verif and removed afterwards) must make the named check exit 1;
negative controls (behaviour-preserving edits) must leave it at 0.

usage: selftest/sensitivity.py [PID ...]    results -> selftest/sensitivity.json
"""
import json
import os
import shutil
import subprocess
import sys
import tempfile
import time

VERIF = os.path.dirname(os.path.dirname(os.path.abspath(__file__)))
sys.path.insert(0, VERIF)
from selftest.mutants import MUTANTS  # noqa


def run_one(m):
    tmp = tempfile.mkdtemp(prefix="verif-mut-")
    try:
        shutil.copytree("/repo/ioflo", os.path.join(tmp, "ioflo"), ignore=shutil.ignore_patterns("__pycache__", "test"))
        for path, old, new in m["edits"]:
            full = os.path.join(tmp, path)
            s = open(full).read()
            if s.count(old) < 1:
                return {"name": m["name"], "pid": m["pid"], "result": "STALE-MUTANT (pattern not found in %s)" % path}
            s = s.replace(old, new, 1 if not m.get("all") else -1)
            open(full, "w").write(s)
        env = dict(os.environ, VERIF_REPO=tmp, VERIF_SEED=str(m.get("seed", 0)), VERIF_NO_EVIDENCE="1")
        t0 = time.time()
        cmd = [os.path.join(VERIF, "bin", "check"), m["pid"]]
        if m.get("runs"):
            cmd += ["--runs", str(m["runs"])]
        r = subprocess.run(cmd, env=env, capture_output=True, text=True, timeout=1800)
        want = 0 if m.get("negative") else 1
        lines = [l for l in r.stdout.splitlines() if l.startswith(("VIOLATION", "HARNESS", "  kind"))][:4]
        return {"name": m["name"], "pid": m["pid"], "rc": r.returncode, "want": want,
                "result": "ok" if r.returncode == want else "MISSED" if want == 1 else "FALSE-ALARM",
                "wall_s": round(time.time() - t0, 1), "lines": lines}
    finally:
        shutil.rmtree(tmp, ignore_errors=True)


def main():
    pids = set(a.upper() for a in sys.argv[1:])
    todo = [m for m in MUTANTS if not pids or m["pid"] in pids]
    from concurrent.futures import ThreadPoolExecutor
    groups = {}
    for m in todo:
        groups.setdefault(m["pid"], []).append(m)   # same property sequentially: replay files are per property

    def run_group(ms):
        # first the unmodified copy: a check that already reports on the unchanged tree would make every breakage look "reported"
        base = run_one({"name": "(unmodified)", "pid": ms[0]["pid"], "edits": [], "negative": True})
        if base["result"] != "ok":
            base["result"] = "BASELINE-NOT-CLEAN"
            return [base] + [{"name": m["name"], "pid": m["pid"], "result": "BASELINE-NOT-CLEAN"} for m in ms]
        return [base] + [run_one(m) for m in ms]
    with ThreadPoolExecutor(max_workers=3) as ex:
        res = [r for grp in ex.map(run_group, groups.values()) for r in grp]
    for r in res:
        print("%-5s %-40s %s %s" % (r["pid"], r["name"], r["result"], r.get("lines", [""])[:1]))
    path = os.path.join(VERIF, "selftest", "sensitivity.json")
    old = {}
    if os.path.exists(path):
        old = dict(((r["pid"], r["name"]), r) for r in json.load(open(path)))
    for r in res:
        old[(r["pid"], r["name"])] = r
    json.dump(sorted(old.values(), key=lambda r: (r["pid"], r["name"])), open(path, "w"), indent=1)
    bad = [r for r in res if r["result"] != "ok"]
    return 1 if bad else 0


if __name__ == "__main__":
    sys.exit(main())
