"""logsim = flosim + the simulated disk: logging.os / filing.os / filing.open / logging.datetime are the sim versions."""
from flosim.harness import run_script
from substrate.fs import SimFS, SimKill
from substrate.shims import SimTime, SimDatetimeModule

LOGDIR = "/simlog/h/lg"


def run_logged(script, period, env_table=None, kill_at=None, faults=None, cap=None, fs=None):
    """Returns (res or None when the process was killed, fs, killed)."""
    import ioflo.base.logging as L
    import ioflo.aid.filing as F
    fs = fs or SimFS(kill_at=kill_at, faults=faults)
    saved = (L.os, F.os, F.__dict__.get("open"), L.datetime)
    L.os = fs
    F.os = fs
    F.open = fs.builtin_open
    L.datetime = SimDatetimeModule(SimTime(now=0.0))
    res = None
    killed = False
    try:
        try:
            def hook(r):
                fs.clock = lambda: r.house.store.stamp
            res = run_script(script, period=period, env_table=env_table, cap=cap, after_build=hook)
        except SimKill:
            killed = True
    finally:
        L.os, F.os, L.datetime = saved[0], saved[1], saved[3]
        if saved[2] is None:
            del F.open
        else:
            F.open = saved[2]
    return res, fs, killed
