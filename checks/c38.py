"""C38 — exchanges time out and retransmit on schedule.

Real: Exchange / Exchanger / Exchangent, StoreTimer, Stamper.  Stub: the stack under the
exchange (records transmit calls) and its device.  Simulated: the stamp-advance schedule
(including advances that skip several redo intervals) and when process() is called.
"""
import hashlib

from simkit.core import Outcome, Trace
from simkit.driver import Check

U = 0.0625
TIMEOUTS = [None, 0, 0.5, 1.0, 2.0, 0.75]
REDOS = [None, 0, 0.125, 0.25, 0.5, 1.0, 0.1875]


class StubDevice(object):
    name = "dev"
    ha = ("127.0.0.1", 9)


class StubStack(object):
    name = "stub"

    def __init__(self, stamper):
        self.stamper = stamper
        self.sent = []

    def transmit(self, pkt, ha=None):
        self.sent.append((self.stamper.stamp, pkt))

    def message(self, msg, remote=None):
        self.sent.append((self.stamper.stamp, msg))


class C38(Check):
    pid = "C38"
    level = "exploration"
    engine = "clock"
    design_ref = "§6 C38"
    rule = ("Exchanger, a non-finishing Exchangent and an Exchangent whose reply is first sent at a drawn later step, created with every combination of timeout in {default,0,0.5,0.75,1,2} and "
            "redo timeout in {default,0,1/8,3/16,1/4,1/2,1} (passed by the documented keyword), started, then driven by a "
            "seeded schedule of stamp advances (multiples of 1/16 s, some skipping several redo intervals) each followed "
            "by process(), optionally finished by the peer at a drawn step; non-trivial = at least one retransmission or "
            "a timeout occurred; follow-up messages through send / transmit / message at drawn steps; distinct = digest of (settings, transmission times, outcome)")
    components = {"real": ["ioflo.aio.proto.exchanging.Exchange/Exchanger/Exchangent", "ioflo.aid.timing.StoreTimer/Stamper"],
                  "stub": ["stack (records transmit)", "device", "stamp advanced by the simulator"]}
    assumptions = ["redo intervals are counted from the start of the exchange (each elapsed interval re-arms the timer whether or not there "
                   "is anything to retransmit yet), so a reply first sent late is retransmitted at the next interval boundary, never immediately",
                   "process() is called after every advance while the exchange is not finished; 'once each time the redo interval elapses' is "
                   "measured from the previous (re)transmission as observed at process() calls"]
    required_probes = ["redo-passed", "timeout-zero", "timed-out", "retransmitted", "skip-several-intervals", "finished-by-peer", "late-first-send", "late-retransmitted", "followup-send", "followup-transmit", "followup-message"]
    quick_runs = 20000
    thorough_runs = 1000000
    shrink_fields = ["advances"]

    def directed(self):
        return [{"cls": "Exchanger", "timeout": 1.0, "redo": 0.25, "advances": [2, 2, 4, 1, 12, 3, 3, 3], "finish_at": None, "pre": 24},
                {"cls": "Exchanger", "timeout": 0, "redo": 0.125, "advances": [2] * 40, "finish_at": 30},
                {"cls": "Exchangent", "timeout": None, "redo": None, "advances": [1] * 12, "finish_at": None}]

    def generate(self, S, index, tier):
        g = S.gen
        t = TIMEOUTS[index % len(TIMEOUTS)]
        r = REDOS[(index // len(TIMEOUTS)) % len(REDOS)]
        n = g.randint(1, 50)
        adv = [g.choice([1, 1, 2, 3, 4, 8, 20]) for _ in range(n)]
        cls = g.choice(["Exchanger", "Exchanger", "Exchangent", "ExchangentLate"])
        plan = {"cls": cls, "timeout": t, "redo": r, "advances": adv,
                "finish_at": g.choice([None, None, g.randint(0, n)]), "pre": g.choice([0, 1, 7, 40])}
        if cls == "ExchangentLate":     # the correspondent's reply is not ready when the exchange starts: first sent at a later step
            plan["send_at"] = g.randint(0, max(0, n - 1))
        # follow-up messages sent while the exchange runs, through send() or directly through transmit() / message(): from then on
        # the follow-up is the latest message and is what gets retransmitted
        plan["followups"] = sorted([g.randint(0, max(0, n - 1)), g.choice(["send", "transmit", "message"])] for _ in range(g.choice([0, 0, 1, 2]))) if cls != "ExchangentLate" else []
        return plan

    def execute(self, plan):
        from ioflo.aio.proto import exchanging
        from ioflo.aid.timing import Stamper
        out = Outcome()
        tr = Trace(keep=False)
        stamper = Stamper(stamp=0.0)
        stack = StubStack(stamper)
        kw = {}
        if plan["timeout"] is not None:
            kw["timeout"] = plan["timeout"]
        if plan["redo"] is not None:
            kw["redoTimeout"] = plan["redo"]
            out.probe("redo-passed")
        label = "%s(timeout=%r, redoTimeout=%r)" % (plan["cls"], plan["timeout"], plan["redo"])
        if plan["cls"] == "Exchanger":
            base = exchanging.Exchanger
        elif plan["cls"] == "ExchangentLate":
            class Late(exchanging.Exchangent):      # a correspondent whose reply is produced later
                def respond(self, rx=None):
                    self.rx = rx
            base = Late
        else:
            class Waiting(exchanging.Exchangent):   # a correspondent that answers and then waits for the peer
                def respond(self, rx=None):
                    self.send(b"reply")
            base = Waiting
        try:
            ex = base(stack=stack, device=StubDevice(), **kw)
        except Exception as exn:
            out.violate("construct", "cannot create %s with %s" % (plan["cls"], "+".join(sorted(kw)) or "defaults"),
                        "%s raised %r" % (label, exn))
            out.digest = tr.digest()
            return out
        timeout = plan["timeout"] if plan["timeout"] is not None else base.Timeout
        redo = plan["redo"] if plan["redo"] is not None else base.RedoTimeout
        if float(ex.timeout) != float(timeout) or float(ex.redoTimeout) != float(redo):
            out.violate("settings", "constructor ignored a setting", "%s has timeout %r redoTimeout %r" % (label, ex.timeout, ex.redoTimeout))
            out.digest = tr.digest()
            return out
        if timeout == 0:
            out.probe("timeout-zero")
        msg = b"hello"
        stamper.advance(plan.get("pre", 0) * U)   # the exchange is created at 0 and started later
        t0 = stamper.stamp
        try:
            if plan["cls"] == "Exchanger":
                ex.start(msg)
            else:
                ex.start(b"request")
                msg = b"reply"
        except Exception as exn:
            out.violate("exception", "start raised %s" % type(exn).__name__, repr(exn))
            out.digest = tr.digest()
            return out
        # model
        late = plan["cls"] == "ExchangentLate"
        m_sent = [] if late else [t0]
        m_payload = [] if late else [msg]
        m_start = t0
        m_last = t0
        m_failed = False
        m_done = False
        for i, a in enumerate(plan["advances"]):
            stamper.advance(a * U)
            out.sim_time += a * U
            now = stamper.stamp
            if plan["finish_at"] is not None and i == plan["finish_at"] and not ex.done:
                ex.finish()      # the peer's answer arrived
                m_done = True
                out.probe("finished-by-peer")
            if ex.done or m_done:
                if ex.done != m_done:
                    out.violate("done", "done flag differs from model", "%s at t=%s done=%s model=%s" % (label, now, ex.done, m_done))
                    break
                continue
            try:
                ex.process()
            except Exception as exn:
                out.violate("exception", "process raised %s" % type(exn).__name__, repr(exn))
                break
            if timeout > 0.0 and now >= m_start + timeout:
                m_failed = m_done = True
                out.probe("timed-out")
            elif redo > 0.0 and now >= m_last + redo:
                if now >= m_last + 2 * redo:
                    out.probe("skip-several-intervals")
                if not late or m_sent:
                    m_sent.append(now)
                    m_payload.append(msg)
                    out.probe("retransmitted")
                    if late:
                        out.probe("late-retransmitted")
                m_last = now
            for fi, (at, how) in enumerate(plan.get("followups") or []):
                if at == i and not m_done:
                    msg = b"followup%d" % fi
                    try:
                        getattr(ex, how)(msg)
                    except Exception as exn:
                        out.violate("exception", "%s raised %s" % (how, type(exn).__name__), repr(exn))
                        break
                    m_sent.append(now)
                    m_payload.append(msg)
                    out.probe("followup-" + how)
            if late and i == plan.get("send_at") and not m_done:
                try:
                    ex.send(b"reply")            # the reply became ready after this process() call
                except Exception as exn:
                    out.violate("exception", "send raised %s" % type(exn).__name__, repr(exn))
                    break
                m_sent.append(now)
                m_payload.append(msg)
                out.probe("late-first-send")
            got = [t for t, p in stack.sent]
            tr.add(i, now, len(got), ex.done, ex.failed)
            if got != m_sent:
                out.violate("retransmit", "transmissions differ from schedule", "%s at t=%s: transmitted at %r, schedule says %r" % (label, now, got, m_sent))
                break
            if [p for t, p in stack.sent] != m_payload:
                out.violate("payload", "retransmitted something other than the latest message", repr(stack.sent))
                break
            if (ex.done, ex.failed) != (m_done, m_failed):
                out.violate("timeout", "timeout outcome differs", "%s at t=%s: done=%s failed=%s, model done=%s failed=%s (timeout %s)"
                            % (label, now, ex.done, ex.failed, m_done, m_failed, timeout))
                break
            out.steps += 1
        out.digest = tr.digest()
        out.state_digest = hashlib.sha256(repr((plan["cls"], plan["timeout"], plan["redo"], m_sent, m_failed)).encode()).hexdigest()[:16]
        out.nontrivial = len(m_sent) > 1 or m_failed
        return out


CHECK = C38()
