"""C34 — HTTP redirects are followed safely to the final response.

Real: Patron (redirect, reconnect, Requester, Respondent), 2-4 real Valets at distinct
(host, port, scheme) in the simulated network, Client / ClientTls / Server / ServerTls.
Stub: sockets, DNS (a.sim, b.sim), TLS (stub context; ssl.create_default_context as seen by
ioflo.aio.tcp.clienting returns it), WSGI apps that answer 30x + Location along the plan's
chain.  Oracle: the requests seen by each server equal the model chain, one final response
carries the redirect responses in order, and an https response never causes a plaintext
connection to be opened.
"""
import hashlib
import ssl as _ssl
from urllib.parse import parse_qsl, quote_plus

from simkit.core import Outcome, Trace
from simkit.driver import Check
from netharn.http import http_world
from substrate.tls import StubContext
from ioflo.base.storing import Store

SERVERS = [
    {"host": "a.sim", "ip": "127.0.0.1", "port": 8080, "scheme": "http"},
    {"host": "b.sim", "ip": "127.0.0.2", "port": 8080, "scheme": "http"},
    {"host": "a.sim", "ip": "127.0.0.1", "port": 8081, "scheme": "http"},
    {"host": "b.sim", "ip": "127.0.0.2", "port": 80, "scheme": "http"},
    {"host": "a.sim", "ip": "127.0.0.1", "port": 8443, "scheme": "https"},
    {"host": "b.sim", "ip": "127.0.0.2", "port": 443, "scheme": "https"},
]
QVALS = ["1", "two words", "a&b", "x=y", "café", ""]


class SslShim(object):
    """`ssl` as seen by ioflo.aio.tcp.clienting: default contexts are the stub."""

    def __init__(self, ctx):
        self._ctx = ctx

    def create_default_context(self, *a, **k):
        return self._ctx

    def SSLContext(self, *a, **k):
        return self._ctx

    def __getattr__(self, name):
        return getattr(_ssl, name)


def location(hop, form):
    sv = SERVERS[hop["server"]]
    q = "&".join("%s=%s" % (k, quote_plus(v)) for k, v in hop["query"])
    pathq = hop["path"] + ("?" + q if q else "")
    if form == "relative":
        return pathq
    default = 443 if sv["scheme"] == "https" else 80
    if form == "absolute-noport" and sv["port"] == default:
        return "%s://%s%s" % (sv["scheme"], sv["host"], pathq)
    return "%s://%s:%d%s" % (sv["scheme"], sv["host"], sv["port"], pathq)


class C34(Check):
    pid = "C34"
    level = "exploration"
    engine = "netsim.http"
    design_ref = "§6 C34"
    rule = ("generated redirect chains of 1-5 hops over 2-4 servers (two hosts, ports 80/443/8080/8081/8443, http and https), "
            "each 30x carrying an absolute Location (with or without default port) or a path-absolute relative one, with "
            "query strings; statuses 301/302/303/307; seeded schedule of client / server service and delivery; "
            "non-trivial = at least one hop changes host, port or scheme or is relative; distinct = digest of the chain")
    components = {"real": ["ioflo.aio.http.clienting.Patron (redirect)", "ioflo.aio.http.serving.Valet", "ioflo.aio.tcp Client/ClientTls/Server/ServerTls"],
                  "stub": ["socket module", "DNS table", "TLS (stub context also returned by ssl.create_default_context)", "WSGI apps"]}
    assumptions = ["relative Locations are path-absolute ('/path?query'); dot-segment / sibling-relative resolution is not generated",
                   "on an https -> http redirect either an error response or an exception out of the redirect step is accepted; opening the plaintext connection is not"]
    required_probes = ["relative", "host-change", "port-change", "http-to-https", "https-to-https", "downgrade-refused", "chain>=3", "completed", "errored-final-after-redirects", "follow-up-exchange", "redirect-with-body"]
    quick_runs = 5000
    thorough_runs = 250000
    shrink_fields = ["schedule"]

    def directed(self):
        return [
            {"hops": [{"server": 0, "path": "/h0", "query": []}, {"server": 0, "path": "/h1", "query": [["a", "1"]]}], "forms": ["relative"], "statuses": [302], "schedule": []},
            {"hops": [{"server": 4, "path": "/h0", "query": []}, {"server": 4, "path": "/h1", "query": []}, {"server": 5, "path": "/h2", "query": [["q", "x=y"]]}],
             "forms": ["relative", "absolute-noport"], "statuses": [301, 307], "schedule": []},
            {"hops": [{"server": 0, "path": "/h0", "query": []}, {"server": 4, "path": "/h1", "query": []}], "forms": ["absolute"], "statuses": [303], "schedule": []},
            {"hops": [{"server": 4, "path": "/h0", "query": []}, {"server": 0, "path": "/h1", "query": []}], "forms": ["absolute"], "statuses": [302], "schedule": []},
            {"hops": [{"server": 0, "path": "/h0", "query": []}, {"server": 1, "path": "/h1", "query": []}, {"server": 2, "path": "/h2", "query": []},
                      {"server": 3, "path": "/h3", "query": []}], "forms": ["absolute", "absolute", "absolute-noport"], "statuses": [302, 302, 302], "schedule": []},
        ]

    def generate(self, S, index, tier):
        g = S.gen
        n = g.choice([2, 2, 3, 3, 4, 6])
        pool = g.sample(range(len(SERVERS)), g.randint(2, 4))
        hops = []
        for i in range(n):
            sv = g.choice(pool) if i == 0 or g.random() < 0.6 else hops[-1]["server"]
            hops.append({"server": sv, "path": "/h%d" % i + g.choice(["", "/sub", "/a b"]),
                         "query": [[k, g.choice(QVALS)] for k in g.sample(["a", "b", "c"], g.randint(0, 2))]})
        forms = []
        for i in range(1, n):
            same = hops[i]["server"] == hops[i - 1]["server"]
            forms.append(g.choice(["relative", "relative", "absolute"]) if same else g.choice(["absolute", "absolute", "absolute-noport"]))
        s = S.sched
        sched = []
        for _ in range(s.randint(0, 30)):
            r = s.random()
            sched.append(["c"] if r < 0.4 else ["s", s.randint(0, 5)] if r < 0.8 else ["d"])
        plan = {"hops": hops, "forms": forms, "statuses": [g.choice([301, 302, 303, 307]) for _ in range(n - 1)], "schedule": sched,
                "final": "ok", "followup": g.random() < 0.5}
        # redirect responses usually carry a small body ("moved to ..."): fixed length or chunked, produced over several server passes,
        # so that the client can see the complete head of a 30x before the end of its body
        plan["rbodies"] = [None if g.random() < 0.5 else {"pieces": [b"<moved %d.%d>" % (i, j) + b"x" * g.randint(0, 12) for j in range(g.randint(1, 3))],
                                                           "chunked": g.random() < 0.4, "gaps": g.choice([0, 1, 1, 2])} for i in range(n - 1)]
        last = hops[-1]["server"]
        if SERVERS[last]["scheme"] == "http" and all(h["server"] != last for h in hops[:-1]) and g.random() < 0.35:
            # the last server answers the redirected request with something that does not parse (scripted raw peer instead of a Valet)
            plan["final"] = g.choice(["HTTP/2.0 200 OK\r\nContent-Length: 0\r\n\r\n", "HTTP/1.1 abc OK\r\n\r\n", "HTTP/1.1 200 OK\r\nNoColonHere\r\n\r\n",
                                      "HTTP/1.1 200 OK\r\nTransfer-Encoding: chunked\r\n\r\nzz\r\nhello\r\n0\r\n\r\n"])
        return plan

    def execute(self, plan):
        from ioflo.aio.http import clienting, serving
        out = Outcome()
        tr = Trace(keep=False)
        hops, forms, statuses = plan["hops"], plan["forms"], plan["statuses"]
        n = len(hops)
        if n >= 3:
            out.probe("chain>=3")
        downgrade_at = None
        for i in range(1, n):
            a, b = SERVERS[hops[i - 1]["server"]], SERVERS[hops[i]["server"]]
            if forms[i - 1] == "relative":
                out.probe("relative")
            if a["host"] != b["host"]:
                out.probe("host-change")
            if a["port"] != b["port"]:
                out.probe("port-change")
            if a["scheme"] == "http" and b["scheme"] == "https":
                out.probe("http-to-https")
            if a["scheme"] == "https" and b["scheme"] == "https" and a is not b:
                out.probe("https-to-https")
            if a["scheme"] == "https" and b["scheme"] == "http" and downgrade_at is None:
                downgrade_at = i
        ctx = StubContext(4096)
        seen = {}

        def make_app(k):
            def app(environ, start):
                path = environ["PATH_INFO"]
                seen.setdefault(k, []).append((path, parse_qsl(environ.get("QUERY_STRING", ""), keep_blank_values=True), environ["wsgi.url_scheme"]))
                idx = None
                for i, h in enumerate(hops):
                    if h["server"] == k and h["path"] == path:
                        idx = i
                if idx is not None and idx < n - 1:
                    rb = (plan.get("rbodies") or [None] * n)[idx]
                    if not rb:
                        start("%d Redirect" % statuses[idx], [("Location", location(hops[idx + 1], forms[idx])), ("Content-Length", "0")])
                        return [b""]
                    out.probe("redirect-with-body")
                    hdrs = [("Location", location(hops[idx + 1], forms[idx]))]
                    if not rb["chunked"]:
                        hdrs.append(("Content-Length", str(sum(len(x) for x in rb["pieces"]))))
                    start("%d Redirect" % statuses[idx], hdrs)

                    def produce():
                        for piece in rb["pieces"]:
                            for _ in range(rb["gaps"]):
                                yield b""
                            yield bytes(piece)
                    return produce()
                body = b"final:%d" % (idx if idx is not None else -1)
                start("200 OK", [("Content-Length", str(len(body)))])
                return [body]
            return app

        used = sorted(set(h["server"] for h in hops))
        with http_world(cap=1 << 16, extra=[("ioflo.aio.tcp.clienting", "ssl", SslShim(ctx))]) as net:
            net.hosts.update({"a.sim": "127.0.0.1", "b.sim": "127.0.0.2"})
            valets = {}
            raw_final = plan.get("final", "ok") != "ok"
            rawk = hops[-1]["server"] if raw_final else None
            rawsrv = {"conns": [], "answered": 0}
            if raw_final:
                out.probe("errored-final-after-redirects")
                from substrate.net import SimSocket
                lst = SimSocket(net, "peer")
                lst.bind((SERVERS[rawk]["ip"], SERVERS[rawk]["port"]))
                lst.listen(5)

                class RawFinal(object):
                    def serviceAll(self_inner):
                        try:
                            c, ca = lst.accept()
                            rawsrv["conns"].append([c, bytearray()])
                        except OSError:
                            pass
                        for ent in rawsrv["conns"]:
                            c, buf = ent
                            try:
                                buf.extend(c.recv(4096))
                            except OSError:
                                pass
                            while b"\r\n\r\n" in buf:
                                head, _, rest = bytes(buf).partition(b"\r\n\r\n")
                                del buf[:len(head) + 4]
                                target = head.split(b"\r\n")[0].split(b" ")[1].decode("ascii")
                                pth, _, qs = target.partition("?")
                                from urllib.parse import unquote
                                seen.setdefault(rawk, []).append((unquote(pth), parse_qsl(qs, keep_blank_values=True), "http"))
                                if rawsrv["answered"] == 0:
                                    c.send(plan["final"].encode("latin-1"))
                                else:
                                    c.send(b"HTTP/1.1 200 OK\r\nContent-Length: 5\r\n\r\nplain")
                                rawsrv["answered"] += 1
                valets[rawk] = RawFinal()
            for k in used:
                if k == rawk:
                    continue
                sv = SERVERS[k]
                kw = dict(store=Store(stamp=0.0), app=make_app(k), ha=(sv["ip"], sv["port"]), bufsize=4096, timeout=0.0)
                if sv["scheme"] == "https":
                    kw.update(scheme="https", context=ctx)
                v = serving.Valet(**kw)
                if not v.open():
                    raise RuntimeError("harness: valet %d did not open" % k)
                valets[k] = v
            first = SERVERS[hops[0]["server"]]
            pk = dict(store=Store(stamp=0.0), hostname=first["host"], port=first["port"], bufsize=4096, scheme=first["scheme"])
            if first["scheme"] == "https":
                pk["context"] = ctx
            pat = clienting.Patron(**pk)
            pat.open()
            from ioflo.aid.odicting import odict
            pat.request(method="GET", path=hops[0]["path"], qargs=odict((k, v) for k, v in hops[0]["query"]))
            exc = [None]

            def step(st):
                try:
                    if st[0] == "c":
                        pat.serviceAll()
                    elif st[0] == "s":
                        v = valets[used[st[1] % len(used)]]
                        v.serviceAll()
                    else:
                        net.deliver_all()
                except Exception as ex:
                    import traceback
                    exc[0] = (st[0], ex, traceback.format_exc()[-800:])
                    return False
                out.steps += 1
                return True

            ok = True
            for st in plan["schedule"]:
                if not step(st):
                    ok = False
                    break
            rounds = 0
            while ok and not pat.responses and rounds < 40 * n + 40:
                rounds += 1
                for st in [["c"], ["d"]] + [["s", i] for i in range(len(used))] + [["d"]]:
                    if not step(st):
                        ok = False
                        break
            followed = False
            if ok and pat.responses and plan.get("followup") and downgrade_at is None:
                # a second, unredirected exchange on the same Patron: it must not inherit anything from the first
                followed = True
                out.probe("follow-up-exchange")
                try:
                    pat.request(method="GET", path="/plain", qargs=odict())
                except Exception as ex:
                    import traceback
                    exc[0] = ("c", ex, traceback.format_exc()[-800:])
                    ok = False
                rounds = 0
                while ok and len(pat.responses) < 2 and rounds < (12 if raw_final else 80):
                    rounds += 1
                    for st in [["c"], ["d"]] + [["s", i] for i in range(len(used))] + [["d"]]:
                        if not step(st):
                            ok = False
                            break
            tr.add("seen", sorted((k, v) for k, v in seen.items()), [r["status"] for r in pat.responses], repr(exc[0][1]) if exc[0] else None)
            # ---- judge -------------------------------------------------------------------
            plain_conns = [s for s in net.socks if s.role == "cli" and s.raddr is not None and s.state in ("established", "connected0", "pending")
                           and any(SERVERS[k]["scheme"] == "http" and (SERVERS[k]["ip"], SERVERS[k]["port"]) == s.raddr for k in range(len(SERVERS)))]
            if downgrade_at is not None:
                # requests up to the downgrade must be as the model says; nothing after it may reach a plaintext server
                upto = downgrade_at
                after_http = [k for k in used if SERVERS[k]["scheme"] == "http"]
                leaked = []
                for i in range(upto, n):
                    k = hops[i]["server"]
                    if SERVERS[k]["scheme"] == "http" and any(p == hops[i]["path"] for p, q, sch in seen.get(k, [])):
                        leaked.append(i)
                late_plain = [s for s in plain_conns if s.created_seq > self._seq_of_first_tls(net)]
                if leaked or late_plain:
                    out.violate("downgrade", "https response caused a plaintext connection",
                                "hops %r reached plaintext servers; plaintext client sockets opened after TLS: %d" % (leaked, len(late_plain)))
                elif exc[0] is not None and exc[0][0] != "c":
                    out.violate("exception", "Valet.serviceAll raised %s" % type(exc[0][1]).__name__, exc[0][2])
                else:
                    out.probe("downgrade-refused")
            elif exc[0] is not None:
                who = "Patron.serviceAll" if exc[0][0] == "c" else "Valet.serviceAll"
                out.violate("exception", "%s raised %s following %s redirect" % (who, type(exc[0][1]).__name__, self._form_at_failure(plan, seen)),
                            "%r\n%s" % (exc[0][1], exc[0][2]))
            else:
                want_seen = {}
                for i, h in enumerate(hops):
                    want_seen.setdefault(h["server"], []).append((h["path"], [(k, v) for k, v in h["query"]], SERVERS[h["server"]]["scheme"]))
                if followed and not raw_final:
                    want_seen.setdefault(hops[-1]["server"], []).append(("/plain", [], SERVERS[hops[-1]["server"]]["scheme"]))
                if raw_final:      # after an unparsable response the connection's byte stream is out of step: only the chain bookkeeping is judged
                    seen = dict((k, [x for x in v if x[0] != "/plain"]) for k, v in seen.items())
                if seen != want_seen:
                    out.violate("requests", "requests seen by servers differ from the chain", "seen %r want %r" % (seen, want_seen))
                elif raw_final and followed and len(pat.responses) in (1, 2):
                    r = pat.responses[0]
                    if not r["errored"]:
                        out.violate("final", "unparsable final response not marked errored", "status %r errored %r" % (r["status"], r["errored"]))
                    elif [x["status"] for x in r.get("redirects", [])] != statuses:
                        out.violate("redirects", "redirect chain not carried in order by an errored final response",
                                    "redirect statuses %r want %r" % ([x["status"] for x in r.get("redirects", [])], statuses))
                    elif len(pat.responses) == 2 and pat.responses[1].get("redirects"):
                        out.violate("follow-up", "the exchange after a redirected one inherits its redirect chain",
                                    "second response carries redirects %r" % ([x["status"] for x in pat.responses[1]["redirects"]],))
                    else:
                        out.probe("completed")
                elif len(pat.responses) != (2 if followed else 1):
                    out.violate("final-count", "not exactly one final response per exchange", "%d responses for %d exchanges" % (len(pat.responses), 2 if followed else 1))
                else:
                    r = pat.responses[0]
                    reds = r.get("redirects", [])
                    if followed and (pat.responses[1].get("redirects") or pat.responses[1]["status"] != 200 or
                                     bytes(pat.responses[1]["body"]) != (b"plain" if raw_final else b"final:-1")):
                        r2 = pat.responses[1]
                        out.violate("follow-up", "the exchange after a redirected one is not clean",
                                    "second response status %r body %r redirects %r" % (r2["status"], bytes(r2["body"]), [x["status"] for x in r2.get("redirects", [])]))
                    elif raw_final and not r["errored"]:
                        out.violate("final", "unparsable final response not marked errored", "status %r errored %r" % (r["status"], r["errored"]))
                    elif not raw_final and (r["status"] != 200 or bytes(r["body"]) != b"final:%d" % (n - 1)):
                        out.violate("final", "final response wrong", "status %r body %r" % (r["status"], bytes(r["body"])))
                    elif [x["status"] for x in reds] != statuses:
                        out.violate("redirects", "redirect chain not carried in order", "redirect statuses %r want %r" % ([x["status"] for x in reds], statuses))
                    else:
                        last = SERVERS[hops[-1]["server"]]
                        if tuple(pat.connector.ha) != (last["ip"], last["port"]):
                            out.violate("final-connection", "client not connected to the final server", "ha %r want %r" % (pat.connector.ha, (last["ip"], last["port"])))
                        else:
                            out.probe("completed")
        out.digest = tr.digest()
        out.state_digest = hashlib.sha256(repr((hops, forms, statuses)).encode()).hexdigest()[:16]
        out.nontrivial = any(f == "relative" for f in forms) or len(set(h["server"] for h in hops)) > 1
        return out

    @staticmethod
    def _seq_of_first_tls(net):
        for s in net.socks:
            if s.role == "cli" and s.raddr is not None and s.raddr[1] in (443, 8443):
                return s.created_seq
        return 1 << 60

    @staticmethod
    def _form_at_failure(plan, seen):
        done = sum(len(v) for v in seen.values())
        forms = plan["forms"]
        return forms[done - 1] if 0 < done <= len(forms) else "?"


CHECK = C34()
