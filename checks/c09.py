"""C09 — auxiliary framers live exactly as long as their main frame."""
from checks.flocommon import FloCheck, outline_of
from checks.floinv import check_bracketing, framer_asts
from flosim.gen import cfg_with


class C09(FloCheck):
    pid = "C09"
    design_ref = "§6 C09"
    cfg = cfg_with(nframes=(2, 6), p_child=0.7, naux=(1, 2), p_aux=0.45, p_caux=0.1, p_done=0.7, p_auxdone=0.35, p_done_named=0.15, nslaves=(0, 1), p_go=0.7, p_auxdone_named=0.5)
    rule = ("generated programs in which frames at several levels carry plain auxiliaries (shared originals), with 'done' verbs "
            "(own and named) and done-conditions (any / all / named) on watcher transitions; direct invariants from the recorder "
            "trace: the auxiliary's first-frame enter follows its main frame's enter actions, every auxiliary frame is exited "
            "before its main frame's exit actions run, an auxiliary frame is never entered twice without exit (never under two "
            "owners); per-run ordering (its transitions before the main framer's, its recur right after its main frame's) and "
            "the done-conditions by the reference interpreter; non-trivial = an auxiliary was entered at least twice in the "
            "run; distinct = digest of per-run (status, active outline)")
    assumptions = ["done-conditions are compared through the transitions they guard (reference interpreter)"]
    directed_files = ("flo-done-verb-in-exit-of-cond-aux-frame", "flo-start-of-readied-framer-whose-aux-was-taken")
    required_probes = ["aux-reentered", "aux-exited-with-main", "done-need", "named-done-verb"]

    def invariants(self, plan, res, impl, out):
        check_bracketing(plan, impl, out)
        if out.violations:
            return
        asts = framer_asts(plan)
        # main frame -> plain aux names
        aux_of = {}
        for fr in plan["program"]["framers"]:
            for f in fr["frames"]:
                for a in f["acts"]:
                    if a["k"] == "aux" and not a.get("needs"):
                        aux_of.setdefault(f["name"], []).append(a["name"])
        auxframes = dict((fr["name"], set(f["name"] for f in fr["frames"])) for fr in plan["program"]["framers"] if fr.get("sched") == "aux")
        entered = dict((a, set()) for a in auxframes)
        owner_entered = {}
        for e in impl:
            if e[1] != "rec":
                continue
            tag, framer, frame, ctx = e[2], e[3], e[4], e[5]
            if framer in auxframes:
                if ctx == "enter":
                    entered[framer].add(frame)
                elif ctx == "exit":
                    entered[framer].discard(frame)
            elif ctx == "exit" and frame in aux_of and tag.endswith(".exit"):
                for ax in aux_of[frame]:
                    if entered.get(ax) and owner_entered.get(ax) == frame:
                        out.violate("aux-outlives-main", "auxiliary still entered when its main frame's exit actions run",
                                    "tick %d: %s exits while its aux %s still has entered frames %r" % (e[0], frame, ax, sorted(entered[ax])))
                        return
                out.probe("aux-exited-with-main")
            elif ctx == "enter" and frame in aux_of and tag.endswith(".enter"):
                for ax in aux_of[frame]:
                    owner_entered[ax] = frame

    def probes(self, plan, res, impl, out):
        n = {}
        for e in impl:
            if e[1] == "rec" and e[3].startswith("ax") and e[5] == "enter":
                n[e[4]] = n.get(e[4], 0) + 1
        if any(v >= 2 for v in n.values()):
            out.probe("aux-reentered")
            out.nontrivial = True
        text = repr(plan["program"])
        if "'t': 'auxdone'" in text or "'t': 'done'" in text:
            out.probe("done-need")
        for fr in plan["program"]["framers"]:
            for f in fr["frames"]:
                for a in f["acts"]:
                    if a["k"] == "done" and a.get("who") and a["who"] != ["me"]:
                        out.probe("named-done-verb")


CHECK = C09()
