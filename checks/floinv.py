"""Trace invariants stated directly on the implementation's trace and the AST (no reference model)."""
from checks.flocommon import outline_of
from flosim.model import STARTED, RUNNING, STOPPED, ABORTED, READIED, START, STOP, ABORT, RUN


def framer_asts(plan):
    return dict((fr["name"], fr) for fr in plan["program"]["framers"])


def frame_owner(plan):
    own = {}
    for fr in plan["program"]["framers"]:
        for f in fr["frames"]:
            own[f["name"]] = fr["name"]
    return own


def caux_mains(fr_ast):
    return set(f["name"] for f in fr_ast["frames"] if any(a["k"] == "aux" and a.get("needs") for a in f["acts"]))


def check_actives(plan, impl, out):
    """C05: after every run, actives == outline(active) or that chain cut at a frame with a conditional aux."""
    asts = framer_asts(plan)
    # which auxiliaries are running (have a frame entered and not exited) — known only for auxiliaries all of whose frames record both ends
    recorded = dict((fr["name"], all(_has_rec(fr, f["name"], "enter") and _has_rec(fr, f["name"], "exit") for f in fr["frames"])) for fr in asts.values())
    refs = {}
    for fr in asts.values():
        for f in fr["frames"]:
            for a in f["acts"]:
                if a["k"] == "aux":
                    refs[a["name"]] = refs.get(a["name"], 0) + 1
    open_frames = {}
    for e in impl:
        if e[1] == "rec" and e[5] in ("enter", "exit"):
            s = open_frames.setdefault(e[3], set())
            (s.add if e[5] == "enter" else s.discard)(e[4])
            continue
        if e[1] != "sent" or e[5] is None:
            continue
        name, status, (active, actives, elapsed, recurred, done) = e[2], e[4], e[5]
        actives = list(actives)
        if status in (STARTED, RUNNING):
            if active is None:
                out.violate("actives", "running framer without an active frame", "tick %d framer %s" % (e[0], name))
                return
            full = outline_of(asts[name], active)
            if actives == full:
                # ... unless a conditional auxiliary of a frame above the leaf is running: then the chain must be cut there.
                # Judged only for auxiliaries named by exactly one frame of the whole program (no doubt about the owner) whose
                # frames all record both ends (so 'running' can be read off the trace).
                for fname in full[:-1]:
                    for f in asts[name]["frames"]:
                        if f["name"] != fname:
                            continue
                        for a in f["acts"]:
                            if a["k"] == "aux" and a.get("needs") and refs.get(a["name"]) == 1 and recorded.get(a["name"]) and open_frames.get(a["name"]):
                                out.violate("actives", "active frames are not cut at the main frame of a running conditional auxiliary",
                                            "tick %d framer %s active %s: actives %r although conditional auxiliary %s of frame %s is running (entered frames %r)"
                                            % (e[0], name, active, actives, a["name"], fname, sorted(open_frames[a["name"]])))
                                return
                continue
            if actives and actives == full[:len(actives)] and actives[-1] in caux_mains(asts[name]) and full.index(actives[-1]) >= full.index(active) - len(full):
                cauxes = [a["name"] for f in asts[name]["frames"] if f["name"] == actives[-1] for a in f["acts"] if a["k"] == "aux" and a.get("needs")]
                if any(not recorded.get(x, False) or open_frames.get(x) for x in cauxes):
                    out.probe("cut-at-conditional-aux")
                    continue
                out.violate("actives", "active frames cut at a frame none of whose conditional auxiliaries is running",
                            "tick %d framer %s active %s: actives %r, outline %r, conditional auxiliaries of %s: %r (none has an entered frame)"
                            % (e[0], name, active, actives, full, actives[-1], cauxes))
                return
            out.violate("actives", "active frames are not the active frame's outline", "tick %d framer %s active %s: actives %r, outline %r" % (e[0], name, active, actives, full))
            return
        elif status in (STOPPED, ABORTED) and (actives or active is not None):
            # a framer that was never started has no actives either
            out.violate("actives", "stopped or aborted framer has active frames", "tick %d framer %s status %s: active %r actives %r" % (e[0], name, status, active, actives))
            return


def check_bracketing(plan, impl, out):
    """C06: enter / exit alternate per frame; entered set == full outline at every run boundary; transition order."""
    asts = framer_asts(plan)
    owner = frame_owner(plan)
    entered = {}           # framer -> list of frames entered, in order
    state = {}             # frame -> bool entered
    prev_active = {}
    span = None            # (framer, events) of the top-level send in progress
    depth = 0
    for idx, e in enumerate(impl):
        kind = e[1]
        if kind == "send":
            depth += 1
            if depth == 1:
                span = (e[2], [])
            continue
        if kind == "rec":
            tag, framer, frame, ctx = e[2], e[3], e[4], e[5]
            if span is not None:
                span[1].append((framer, frame, ctx))
            both = _has_rec(asts[framer], frame, "enter") and _has_rec(asts[framer], frame, "exit")
            if not both and ctx in ("enter", "exit"):
                continue      # only frames that record both ends can be bracketed
            if ctx == "enter":
                if state.get((framer, frame)):
                    out.violate("bracketing", "frame entered twice without exit", "tick %d frame %s of %s" % (e[0], frame, framer))
                    return
                state[(framer, frame)] = True
                entered.setdefault(framer, []).append(frame)
            elif ctx == "exit":
                if not state.get((framer, frame)):
                    out.violate("bracketing", "frame exited without having been entered", "tick %d frame %s of %s" % (e[0], frame, framer))
                    return
                state[(framer, frame)] = False
                entered[framer].remove(frame)
            elif ctx in ("recur", "precur", "renter", "rexit") and not state.get((framer, frame)) and both:
                out.violate("bracketing", "action of a frame that is not entered", "tick %d %s ran in frame %s of %s which is not entered" % (e[0], ctx, frame, framer))
                return
            continue
        if kind == "sent":
            depth -= 1
            name, control, status, snap = e[2], e[3], e[4], e[5]
            if snap is None:
                continue
            active = snap[0]
            full = outline_of(asts[name], active) if active else []
            want = [f for f in full if _has_rec(asts[name], f, "enter") and _has_rec(asts[name], f, "exit")]
            got = [f for f in entered.get(name, []) if _has_rec(asts[name], f, "exit")]
            if sorted(got) != sorted(want):
                out.violate("entered-set", "frames entered but not exited differ from the full outline",
                            "tick %d framer %s (status %s, active %s): entered-not-exited %r, full outline %r" % (e[0], name, status, active, got, want))
                return
            if depth == 0 and span is not None:
                bad = _transition_order(asts[name], prev_active.get(name), active, [x for x in span[1] if x[0] == name], control)
                if bad:
                    out.violate("order", "transition actions out of order", "tick %d framer %s %s -> %s: %s" % (e[0], name, prev_active.get(name), active, bad))
                    return
                span = None
            prev_active[name] = active


def _has_rec(fr_ast, frame, ctx):
    for f in fr_ast["frames"]:
        if f["name"] == frame:
            return any(a["k"] == "rec" and a["ctx"] == ctx and a["tag"].endswith("." + ctx) for a in f["acts"])
    return False


def _transition_order(fr_ast, old_active, new_active, events, control):
    """events: [(framer, frame, ctx)] of this framer during one run.  Returns an error string or None."""
    seq = [(f, c) for _fr, f, c in events if c in ("exit", "enter", "rexit", "renter")]
    if not seq:
        return None
    old = outline_of(fr_ast, old_active) if old_active else []
    new = outline_of(fr_ast, new_active) if new_active else []
    if new_active is None:
        i = 0
    elif not old:
        i = 0
    else:
        i = None
        for j in range(min(len(old), len(new))):
            if old[j] == new_active or old[j] != new[j]:
                i = j
                break
        if i is None:
            return "no outline difference between %r and %r yet enter/exit actions ran: %r" % (old, new, seq)
    exp_exit = [f for f in reversed(old[i:]) if _has_rec(fr_ast, f, "exit")]
    exp_enter = [f for f in new[i:] if _has_rec(fr_ast, f, "enter")]
    got_exit = [f for f, c in seq if c == "exit"]
    got_enter = [f for f, c in seq if c == "enter"]
    if got_exit != exp_exit:
        return "exits %r, expected bottom-up %r (old outline %r, new %r)" % (got_exit, exp_exit, old, new)
    if got_enter != exp_enter:
        return "enters %r, expected top-down %r (old outline %r, new %r)" % (got_enter, exp_enter, old, new)
    order = {"exit": 0, "rexit": 1, "renter": 2, "enter": 3}
    ranks = [order[c] for f, c in seq]
    if ranks != sorted(ranks):
        return "contexts interleaved: %r (must be exits, re-exits, re-enters, enters)" % (seq,)
    common = old[:i]
    got_rexit = [f for f, c in seq if c == "rexit"]
    got_renter = [f for f, c in seq if c == "renter"]
    if got_rexit != [f for f in reversed(common) if f in got_rexit] or got_renter != [f for f in common if f in got_renter]:
        return "re-exit / re-enter not bottom-up / top-down on the shared ancestors %r: rexit %r renter %r" % (common, got_rexit, got_renter)
    if any(f not in common for f in got_rexit + got_renter):
        return "re-exit / re-enter ran on frames that are not shared ancestors %r: %r %r" % (common, got_rexit, got_renter)
    return None


def check_suspension(plan, impl, out):
    """C10: while a conditional aux suspends the frames below m, none of their recur / precur actions run."""
    asts = framer_asts(plan)
    depth = 0
    span = None
    for e in impl:
        if e[1] == "send":
            depth += 1
            if depth == 1:
                span = (e[2], [])
        elif e[1] == "rec" and span is not None:
            span[1].append(e)
        elif e[1] == "sent":
            depth -= 1
            if depth == 0 and span is not None and e[5] is not None and e[5][0]:
                name, (active, actives, _e, _r, _d) = e[2], e[5]
                full = outline_of(asts[name], active)
                actives = list(actives)
                if len(actives) < len(full):     # suspended at the end of this run
                    below = set(full[len(actives):])
                    out.probe("suspended")
                    # every recur action of this run that belongs to a suspended frame is a violation unless it ran before the suspension began
                    # (the suspension can only begin in the precur pass, which precedes the recur pass)
                    for r in span[1]:
                        if r[3] == name and r[4] in below and r[5] == "recur":
                            out.violate("suspended-ran", "suspended frame ran a recur action", "tick %d framer %s frame %s (suspended below %s)" % (e[0], name, r[4], actives[-1]))
                            return
                span = None
