"""C08 — entry guards are never bypassed and refused transitions have no effect."""
from checks.flocommon import FloCheck
from checks.floinv import check_bracketing
from flosim.gen import cfg_with


class C08(FloCheck):
    pid = "C08"
    design_ref = "§6 C08"
    directed_files = ("flo-same-frame-name-in-two-framers-sharing-an-aux",)
    cfg = cfg_with(p_let=0.6, naux=(1, 2), p_aux=0.35, p_caux=0.15, p_go=0.85, p_env=1.0, nframes=(2, 6), p_child=0.6, p_inactive=0.3, p_bid=0.2, nslaves=(0, 1), p_fiat=0.3, p_staged=0.35, p_marker=0.25, p_poke=0.4)
    rule = ("generated programs with 'let' guards on main, auxiliary and slave frames (incl. auxiliary first frames) and shared "
            "original auxiliaries claimed by several frames, with the guarded shares flipped by the environment history at drawn "
            "ticks before / after the framer in the same tick; whether a start / transition is admitted (guards of every frame to "
            "be entered, auxiliary ownership, auxiliaries' first-frame guards) and that a refused one leaves no trace (no exit / "
            "re-exit / re-enter / enter / transit action, outline, elapsed and recurred unchanged) are decided by event-by-event "
            "comparison with the reference interpreter, which evaluates the guards on its own copy of the store; the bracketing "
            "invariant (no frame entered twice, auxiliaries included) is checked directly; non-trivial = at least one transition "
            "or start was refused; distinct = digest of per-run (status, active outline)")
    assumptions = ["'at the moment of the attempt' = before the transition's own transit / exit actions run (they may change the guarded share)"]
    required_probes = ["guard-refused", "guard-passed", "aux-owned-elsewhere", "start-refused", "readied-then-start-refused"]

    def invariants(self, plan, res, impl, out):
        check_bracketing(plan, impl, out)

    def probes(self, plan, res, impl, out):
        # a refused start: START sent, status stays STOPPED
        for e in impl:
            if e[1] == "sent" and e[3] == 1 and e[4] == 0:
                out.probe("start-refused")
                out.probe("guard-refused")
                out.nontrivial = True
        # a slave readied while its guards held whose later start is refused (the guard changed in between)
        state = {}
        for e in impl:
            if e[1] == "sent":
                if e[3] == 1 and state.get(e[2]) == 4 and e[4] == 0:
                    out.probe("readied-then-start-refused")
                state[e[2]] = e[4]
        lets = set()
        for fr in plan["program"]["framers"]:
            for f in fr["frames"]:
                if any(a["k"] == "let" for a in f["acts"]):
                    lets.add(f["name"])
        entered = set(e[4] for e in impl if e[1] == "rec" and e[5] == "enter")
        if lets & entered:
            out.probe("guard-passed")
        if lets - entered:
            out.probe("guard-refused")
            out.nontrivial = True
        auxuse = {}
        for fr in plan["program"]["framers"]:
            for f in fr["frames"]:
                for a in f["acts"]:
                    if a["k"] == "aux":
                        auxuse.setdefault(a["name"], set()).add(f["name"])
        if any(len(v) > 1 for v in auxuse.values()):
            out.probe("aux-owned-elsewhere")


CHECK = C08()
