"""C12 — cloned framers run like their originals and never share relative state.

Differential simulation: program A uses moot originals cloned several times (insular
'as mine', named 'as <name>', nested: an original that itself clones another original,
plain and conditional clone auxiliaries); program B is A with every clone replaced by an
ordinary auxiliary framer holding a textual copy of the original's frames in the same
role.  Both run under the real builder and skedder with the same environment history; the
traces must be equal up to the bijection of framer names given by first appearance, and the
framer-relative shares of distinct clones must be distinct store entries whose final values
equal those of the corresponding copies.
"""
import copy
import hashlib
from fractions import Fraction

from simkit.core import Outcome, Trace
from simkit.driver import Check
from flosim.lang import emit
from flosim.harness import run_script
from flosim.gen import env_table, SHARES
from checks.flocommon import COMPONENTS


def _side(g):
    """A side generator seeded by the main generator's state without drawing from it (keeps older programs unchanged)."""
    import random as _random
    return _random.Random(int(hashlib.sha256(repr(g.getstate()).encode()).hexdigest()[:16], 16))


def gen_original(g, name, prefix, others, P=None, p_clock=0.0, markers=False):
    """p_clock: probability that a frame of the original is left by its own clocks ('timeout T' / 'repeat N' / an explicit
    condition on elapsed or recurred) instead of by a condition on store data; needs the tick period P."""
    side = _side(g)
    n = g.randint(2, 3)
    frames = []
    for i in range(n):
        fn = "%s%d" % (prefix, i)
        acts = [{"k": "rec", "ctx": "enter", "tag": "%s.enter" % fn}, {"k": "rec", "ctx": "recur", "tag": "%s.recur" % fn}, {"k": "rec", "ctx": "exit", "tag": "%s.exit" % fn}]
        if i == 0:
            acts.append({"k": "raw", "ctx": "enter", "text": "put %d into counter of framer" % g.randint(0, 2)})
        acts.append({"k": "raw", "ctx": g.choice(["recur", "enter"]), "text": "inc counter of framer with %d" % g.choice([1, 1, 2])})
        if i > 0 and g.random() < 0.4:      # entry need on the clone's own relative data (or on absolute data)
            acts.append({"k": "raw", "ctx": None, "text": "let me if %s" % g.choice(["counter of framer >= %d" % g.randint(1, 4), "counter of framer <= %d" % g.randint(2, 6),
                                                                                    ".sim.x1 >= %d" % g.randint(0, 2), "counter of framer != %d" % g.randint(1, 4)])})
        if others and i == 0 and g.random() < 0.6:
            for j in range(g.choice([1, 1, 2])):       # nested clones (insular, sometimes named), sometimes two side by side in one frame
                acts.append({"k": "clone", "orig": g.choice(others), "as": "mine" if g.random() < 0.65 else "kd%d" % j, "needs": None})
        if i < n - 1:
            need = g.choice(["counter of framer >= %d" % g.randint(1, 5), "recurred >= %d" % g.randint(0, 3), ".sim.x0 >= %d" % g.randint(0, 3)])
            text = "go next if %s" % need
            if P is not None and side.random() < p_clock:
                from flosim.gen import dec
                text = side.choice(["timeout %s" % dec(side.randint(1, 5) * Fraction(P)), "repeat %d" % side.randint(1, 4),
                                    "go next if elapsed >= %s" % dec(side.randint(1, 5) * Fraction(P)), "timeout %s" % dec(side.randint(1, 3) * Fraction(P))])
            elif markers and side.random() < 0.2:
                # (build-time clone plans only: the twin of a run-time plan reuses one copy for successive rears of a statement,
                # whose marks persist, while every reared clone is a new framer; the two are not comparable on mark state)
                # a condition on changes of an absolute share since this clone's own mark (every clone has its own marks, also
                # clones of the same original under different framers)
                text = "go next if %s is %s%s" % (side.choice(SHARES[:2]), side.choice(["updated", "changed"]), side.choice(["", " in frame", " in frame %s0" % prefix]))
            acts.append({"k": "raw", "ctx": None, "text": text})
        else:
            acts.append({"k": "raw", "ctx": g.choice(["enter", "recur"]), "text": "done me"})
        if i == n - 1 and side.random() < 0.3:
            # an ordinary (not cloned) auxiliary framer named by the original: it belongs to the house, not to any clone, and
            # must survive the razing of a clone that uses it
            acts.append({"k": "raw", "ctx": None, "text": "aux pa0"})
        if i > 0 and others and side.random() < 0.3 and any(a["k"] == "clone" for a in frames[0]["acts"]):
            # a raze inside the original aimed at its own first frame, which holds build-time clones: they are not razeable
            # (only clones made by 'rear' are), however the original itself came to run (cloned at build time or reared)
            acts.append({"k": "raw", "ctx": "enter", "text": "raze %s in frame %s%d" % (side.choice(["all", "first", "last"]), prefix, 0)})
        frames.append({"name": fn, "over": None, "acts": acts})
    if side.random() < 0.3:
        # a small hierarchy inside the original: two frames under its first frame, the second one made the primary under by the
        # 'under' verb (the entered outline of a clone must follow the same primary under as the original's)
        kids = [{"name": "%s%s" % (prefix, c), "over": frames[0]["name"],
                 "acts": [{"k": "rec", "ctx": cx, "tag": "%s%s.%s" % (prefix, c, cx)} for cx in ("enter", "recur", "exit")]} for c in ("x", "y")]
        frames[0]["under"] = kids[1]["name"]
        frames[1:1] = kids
    if others and any(a["k"] == "clone" for a in frames[0]["acts"]) and side.random() < 0.3:
        # ... and the same from the holding frame itself while the build-time clones in it are running
        frames[0]["acts"].insert(len(frames[0]["acts"]) - 1, {"k": "raw", "ctx": "recur", "text": "raze %s in frame %s0" % (side.choice(["all", "first", "last"]), prefix)})
    return {"name": name, "sched": "moot", "order": None, "period": None, "first": frames[0]["name"], "frames": frames}


def gen_plan(g, periods=("0.125", "0.25"), p_clock=0.25):
    P = g.choice(list(periods))
    ticks = g.randint(8, 30)
    origs = [gen_original(g, "orig0", "p", [], P, p_clock, markers=True)]
    if g.random() < 0.6:
        origs.append(gen_original(g, "orig1", "q", ["orig0"], P, p_clock, markers=True))
    names = [o["name"] for o in origs]
    nframes = g.randint(2, 4)
    frames = []
    serial = [0]
    for i in range(nframes):
        fn = "m%d" % i
        acts = [{"k": "rec", "ctx": "enter", "tag": "%s.enter" % fn}, {"k": "rec", "ctx": "exit", "tag": "%s.exit" % fn}]
        for _ in range(g.randint(0, 2)):
            serial[0] += 1
            how = "mine" if g.random() < 0.6 else "nc%d" % serial[0]
            needs = None     # the builder refuses a clone as conditional auxiliary ("Conditional auxilary may not be clone")
            acts.append({"k": "clone", "orig": g.choice(names), "as": how, "needs": needs})
        acts.append({"k": "raw", "ctx": None, "text": g.choice(["go next if all is done", "go next if elapsed >= %s" % g.choice(["0.5", "1.0", "1.5"]), "go next if recurred >= %d" % g.randint(1, 6)])
                     if i < nframes - 1 else "go m0 if recurred >= %d" % g.randint(2, 6)})
        frames.append({"name": fn, "over": None, "acts": acts})
    main = {"name": "fm", "sched": "active", "order": None, "period": None, "first": "m0", "frames": frames}
    env = {}
    for t in range(ticks):
        if g.random() < 0.4:
            env[str(t)] = [[g.choice(SHARES[:2]), "value", g.randint(0, 4)]]
    plan = {"P": P, "ticks": ticks, "main": main, "origs": origs, "env": {"0": env}}
    if _side(g).random() < 0.35:
        # a second scheduled framer with clones of the same originals under the same tags ('as mine' numbers them per framer)
        plan["second"] = [g.choice(names) for _ in range(_side(g).choice([1, 1, 2]))]
    return plan


def gen_rear_plan(g):
    """Run-time cloning: cloner frames rear originals into host frames, pruner frames raze them (and, in 'dirty' plans,
    a child frame of the host razes while the clones run or a pruner leaves clones behind)."""
    P = g.choice(["0.125", "0.25"])
    ticks = g.randint(10, 36)
    origs = [gen_original(g, "orig0", "p", [], P, 0.25)]
    if g.random() < 0.6:
        origs.append(gen_original(g, "orig1", "q", ["orig0"], P, 0.25))
    names = [o["name"] for o in origs]
    clean = g.random() < 0.6
    rounds = []
    serial = 0
    for r in range(g.randint(1, 2)):
        rd = {"rears": [g.choice(names) for _ in range(g.randint(1, 3))], "static": [], "mid": None}
        for _ in range(g.choice([0, 0, 1])):
            serial += 1
            rd["static"].append({"orig": g.choice(names), "as": "mine" if g.random() < 0.5 else "nr%d" % serial})
        rd["go"] = g.choice(["all is done", "all is done", "elapsed >= %s" % g.choice(["0.5", "1.0", "1.5"]), "recurred >= %d" % g.randint(1, 6)])
        rd["fallback"] = g.randint(5, 12)
        if clean:
            rd["prune"] = [g.choice(["first", "last"]) for _ in range(g.randint(0, 2))] + ["all"]
        else:
            rd["prune"] = [g.choice(["first", "last", "all"]) for _ in range(g.randint(0, 2))]
            if g.random() < 0.6:
                rd["mid"] = {"at": g.randint(0, 4), "op": g.choice(["first", "last", "all"])}
        rounds.append(rd)
    env = {}
    for t in range(ticks):
        if g.random() < 0.4:
            env[str(t)] = [[g.choice(SHARES[:2]), "value", g.randint(0, 4)]]
    return {"mode": "rear", "P": P, "ticks": ticks, "origs": origs, "rounds": rounds, "clean": clean, "env": {"0": env}}


def rear_main(plan, twin):
    """The main framer of a rear-mode plan.  twin=False: rear / raze statements; True: the textual-copy twin (clone acts for the
    static clones and for every rear, no rear / raze statements)."""
    frames = []
    R = len(plan["rounds"])
    for r, rd in enumerate(plan["rounds"]):
        c, h, p = "c%d" % r, "h%d" % r, "u%d" % r
        acts = [{"k": "rec", "ctx": "enter", "tag": "%s.enter" % c}, {"k": "rec", "ctx": "exit", "tag": "%s.exit" % c}]
        if not twin:
            for o in rd["rears"]:
                acts.append({"k": "raw", "ctx": "enter", "text": "rear %s as mine be aux in frame %s" % (o, h)})
        acts.append({"k": "raw", "ctx": None, "text": "go %s" % h})
        frames.append({"name": c, "over": None, "acts": acts})
        acts = [{"k": "rec", "ctx": "enter", "tag": "%s.enter" % h}, {"k": "rec", "ctx": "recur", "tag": "%s.recur" % h}, {"k": "rec", "ctx": "exit", "tag": "%s.exit" % h}]
        for st in rd["static"]:
            acts.append({"k": "clone", "orig": st["orig"], "as": st["as"], "needs": None})
        if twin:
            for o in rd["rears"]:
                acts.append({"k": "clone", "orig": o, "as": "mine", "needs": None})
        acts.append({"k": "raw", "ctx": None, "text": "go %s if %s" % (p, rd["go"])})
        acts.append({"k": "raw", "ctx": None, "text": "go %s if recurred >= %d" % (p, rd["fallback"])})
        frames.append({"name": h, "over": None, "acts": acts})
        if rd.get("mid") and not twin:
            ka, kb = "k%da" % r, "k%db" % r
            frames.append({"name": ka, "over": h, "acts": [{"k": "rec", "ctx": "enter", "tag": "%s.enter" % ka}, {"k": "rec", "ctx": "exit", "tag": "%s.exit" % ka},
                                                           {"k": "raw", "ctx": None, "text": "go %s if recurred >= %d" % (kb, rd["mid"]["at"])}]})
            frames.append({"name": kb, "over": h, "acts": [{"k": "rec", "ctx": "enter", "tag": "%s.enter" % kb}, {"k": "rec", "ctx": "exit", "tag": "%s.exit" % kb},
                                                           {"k": "raw", "ctx": "enter", "text": "raze %s in frame %s" % (rd["mid"]["op"], h)}]})
        acts = [{"k": "rec", "ctx": "enter", "tag": "%s.enter" % p}, {"k": "rec", "ctx": "exit", "tag": "%s.exit" % p}]
        if not twin:
            for op in rd["prune"]:
                acts.append({"k": "raw", "ctx": "enter", "text": "raze %s in frame %s" % (op, h)})
        acts.append({"k": "raw", "ctx": None, "text": "go c%d" % ((r + 1) % R)})
        frames.append({"name": p, "over": None, "acts": acts})
    return {"name": "fm", "sched": "active", "order": None, "period": None, "first": "c0", "frames": frames}


def build_programs(plan):
    """Returns (program A with clones, program B with copies)."""
    origs = dict((o["name"], o) for o in plan["origs"])
    if plan.get("mode") == "rear":
        plan = dict(plan, main=rear_main(plan, False))
        twin_main = rear_main(plan, True)
    else:
        twin_main = plan["main"]

    def tail(ticks):
        extra = []
        if any(a.get("text") == "aux pa0" for o in plan["origs"] for f in o["frames"] for a in f["acts"]):
            extra = [{"name": "pa0", "sched": "aux", "order": None, "period": None, "first": "pa0a",
                      "frames": [{"name": "pa0a", "over": None, "acts": [{"k": "rec", "ctx": c, "tag": "pa0a.%s" % c} for c in ("enter", "recur", "exit")]}]}]
        return extra + [{"name": "zenv", "sched": "active", "order": "front", "period": None, "first": "zenv0",
                 "frames": [{"name": "zenv0", "over": None, "acts": [{"k": "env", "ctx": "recur", "eid": 0}]}]},
                {"name": "zclk", "sched": "active", "order": "back", "period": None, "first": "zclk0",
                 "frames": [{"name": "zclk0", "over": None, "acts": [{"k": "repeat", "n": ticks}]},
                            {"name": "zclk1", "over": None, "acts": [{"k": "bid", "ctx": "enter", "control": "stop", "who": ["all"]}]}]}]

    def a_frames(frames):
        out = []
        for f in frames:
            acts = []
            for a in f["acts"]:
                if a["k"] == "clone":
                    acts.append({"k": "raw", "ctx": None, "text": "aux %s as %s%s" % (a["orig"], a["as"], (" if " + a["needs"]) if a["needs"] else "")})
                else:
                    acts.append(a)
            out.append(dict({"name": f["name"], "over": f.get("over"), "acts": acts}, **({"under": f["under"]} if f.get("under") else {})))
        return out

    second = None
    if plan.get("second"):
        second = {"name": "fn", "sched": "active", "order": None, "period": None, "first": "n0",
                  "frames": [{"name": "n0", "over": None, "acts": [{"k": "rec", "ctx": "enter", "tag": "n0.enter"}, {"k": "rec", "ctx": "exit", "tag": "n0.exit"}] +
                              [{"k": "clone", "orig": o, "as": "mine", "needs": None} for o in plan["second"]]}]}
    A = {"house": "h", "inits": [[s, 0] for s in SHARES],
         "framers": [dict(plan["main"], frames=a_frames(plan["main"]["frames"]))] + ([dict(second, frames=a_frames(second["frames"]))] if second else []) +
                    [dict(o, frames=a_frames(o["frames"])) for o in plan["origs"]] + tail(plan["ticks"])}
    copies = []
    counter = [0]

    def b_frames(frames):
        out = []
        for f in frames:
            acts = []
            for a in f["acts"]:
                if a["k"] == "clone":
                    counter[0] += 1
                    cname = "cp%d" % counter[0]
                    o = origs[a["orig"]]
                    cp = {"name": cname, "sched": "aux", "order": None, "period": None, "first": o["first"], "frames": None}
                    copies.append(cp)
                    cp["frames"] = b_frames(o["frames"])
                    acts.append({"k": "raw", "ctx": None, "text": "aux %s%s" % (cname, (" if " + a["needs"]) if a["needs"] else "")})
                else:
                    acts.append(a)
            out.append(dict({"name": f["name"], "over": f.get("over"), "acts": acts}, **({"under": f["under"]} if f.get("under") else {})))
        return out

    bmain = dict(twin_main, frames=b_frames(twin_main["frames"]))
    bsecond = [dict(second, frames=b_frames(second["frames"]))] if second else []
    B = {"house": "h", "inits": [[s, 0] for s in SHARES], "framers": [bmain] + bsecond + copies + tail(plan["ticks"])}
    return A, B


def watch_rear_raze(res):
    """after_build hook: records every Rearer / Razer action of the main framer with the host frame's auxiliaries before / after."""
    from ioflo.base import acting, framing
    st = res.state
    fm = [f for f in res.house.framers if f.name == "fm"][0]
    for frame in fm.frameNames.values():
        for lst in (frame.beacts, frame.enacts, frame.renacts, frame.reacts, frame.preacts, frame.exacts, frame.rexacts):
            for act in lst:
                actor = getattr(act, "actor", None)
                if isinstance(actor, (acting.Rearer, acting.Razer)) and not getattr(actor, "_verif_wrapped", False):
                    def make(actor, inner):
                        def action(**kw):
                            fr = kw["frame"]
                            before = [a.name for a in fr.auxes]
                            names0 = set(framing.Framer.Names)
                            r = inner(**kw)
                            after = [a.name for a in fr.auxes]
                            st.unregistered = sorted(names0 - set(framing.Framer.Names))
                            gone = [n for n in before if n not in after]
                            st.add(actor.store.stamp, "rear" if isinstance(actor, acting.Rearer) else "raze", fr.name,
                                   kw.get("who") or kw["original"].name, before, after,
                                   [n for n in gone if n in framing.Framer.Names or n.split("_", 1)[-1] in kw["framer"].auxes] +
                                   sorted(n for n in framing.Framer.Names if any(n.startswith(x + "_") for x in gone)),   # clones nested in a razed clone
                                   [(a.name, bool(a.insular), bool(a.razeable)) for a in fr.auxes], st.unregistered)
                            return r
                        return action
                    actor.action = make(actor, actor.action)
                    actor._verif_wrapped = True


class C12(Check):
    pid = "C12"
    level = "exploration"
    engine = "flosim"
    design_ref = "§6 C12"
    rule = ("four plan families (the fourth, 4% of the plans: two houses in one skedder each rearing and razing clones of its own moot in a cycle, each house compared with itself alone; the third, 4%: nested clones told apart only by the inodes of the main framer and its frames, inode-relative data at distinct inode paths and behaviour as one clone alone). (1) build-time clones: the main framer's frames clone one or two moot originals several times as insular "
            "('as mine') and named clones, the second original itself cloning the first (clones inside clones), originals using "
            "framer-relative data ('counter of framer') to drive their transitions, entry needs ('let me if counter of framer ...') and "
            "'done'. (2) run-time clones (40%): cloner frames 'rear' 1-3 originals into a host frame that may also hold build-time "
            "insular and named clones, pruner frames 'raze first / last / all in frame host', the cycle repeating so that freed names "
            "are taken again; 'dirty' plans raze from a child frame of the host while the clones run or leave clones behind. "
            "Oracles: the clone program and its textual-copy twin (rears as ordinary auxiliaries; family 2 when every pruner ends "
            "with 'raze all') run on the same environment history and are compared event by event (tag, frame, context, tick, main "
            "framer state) up to the first-appearance map from (clone name, raze epoch) to copy name; relative shares of distinct "
            "clones distinct and finally equal to the copies'; directly on every rear / raze action: exactly one razeable insular "
            "clone appended under a name no live clone has, raze removes exactly the reared clones selected by first / last / all "
            "and spares build-time insular and named clones, a razed name (and its nested clones' names) is unregistered and "
            "never records an action again until a later rear takes it; non-trivial = at least two clones of one original ran "
            "or a dirty plan ran; distinct = digest of the clone program")
    components = dict(COMPONENTS)
    assumptions = ["the builder refuses clones as conditional auxiliaries; 'rear ... be <schedule>' other than aux is refused by the builder too, so only auxiliary clones are reared",
                   "whether a razed clone that is 'done' but still entered gets its exit actions is outside this statement (probe razed-while-entered only)",
                   "program B (textual copies as ordinary auxiliaries) is the statement's 'what its original would produce alone'"]
    required_probes = ["insular", "named", "nested", "two-clones-of-one-original", "relative-entry-need", "reared", "razed-all", "razed-first", "razed-last",
                       "raze-left-others", "raze-spared-non-razeable", "freed-name-taken-again", "dirty-plan", "razed-while-entered", "two-nested-clones-in-one-frame", "nested-named", "clock-driven-original", "raze-inside-original", "clones-under-two-framers", "marker-condition-in-original", "under-override-in-original", "nested-clones-under-frame-inodes", "distinct-inode-paths", "two-houses-rearing", "name-taken-again-in-a-second-house", "name-taken-again-in-the-first-house"]
    quick_runs = 3000
    thorough_runs = 150000
    shrink_fields = []

    def generate(self, S, index, tier):
        if index % 25 == 7:
            # family 3: nested clones told apart only by the inodes ('via') of the main framer and of its frames; the inner
            # clone's inode-relative data ('count of me') must live under each outer clone's own inode path.  Every holder frame
            # has its own inode: without one, two chains name the same path (the user's choice, not judged)
            g = _side(S.gen)
            names = g.sample(["left", "right", "north", "east", "wing", "bay"], 3)
            return {"mode": "via", "P": g.choice(["0.125", "0.25"]), "goal": g.randint(2, 5), "base": g.choice(["base", "plant", None]),
                    "holders": names[:g.randint(2, 3)], "vias": [True, True, True], "inner": g.choice(["mine", "named"])}
        if index % 25 == 18:
            # family 4: two houses in one skedder, each rearing and razing clones of its own moot in a cycle; each house must
            # behave as it does alone (a razed clone's name is free again in its own house)
            g = _side(S.gen)
            return {"mode": "houses", "P": g.choice(["0.125", "0.25"]), "same_names": g.random() < 0.5, "hold": [g.randint(1, 4), g.randint(1, 4)],
                    "rest": [g.randint(1, 3), g.randint(1, 3)], "work": [g.randint(1, 3), g.randint(1, 3)], "ticks": g.randint(12, 30),
                    "nrear": [g.randint(1, 2), g.randint(1, 2)]}
        if S.gen.random() < 0.4:
            return gen_rear_plan(S.gen)
        return gen_plan(S.gen)

    def _houses(self, plan, out, tr):
        """Family 4 (see generate)."""
        P = Fraction(plan["P"])

        def house(k):
            sfx = "" if plan["same_names"] else "ew"[k]
            hn = ("east", "west")[k]
            L = ["house %s" % hn, "", "  framer fm%s be active first c0" % sfx, "    frame c0", "      enter"]
            for _ in range(plan["nrear"][k]):
                L.append("        rear orig%s as mine be aux in frame h0" % sfx)
            L += ["      go h0", "    frame h0", "      enter", "        do verif rec with tag \"h0.enter\"", "      recur", "        do verif rec with tag \"h0.recur\"",
                  "      go u0 if elapsed >= %s" % float(plan["hold"][k] * P), "    frame u0", "      enter", "        raze all in frame h0",
                  "      go c0 if elapsed >= %s" % float(plan["rest"][k] * P), "",
                  "  framer orig%s be moot first p0" % sfx, "    frame p0", "      enter", "        do verif rec with tag \"p0.enter\"",
                  "      recur", "        do verif rec with tag \"p0.recur\"", "      exit", "        do verif rec with tag \"p0.exit\"",
                  "      go next if elapsed >= %s" % float(plan["work"][k] * P), "    frame p1", "      enter", "        do verif rec with tag \"p1.enter\"", "      done me", "",
                  "  framer zclk be active first z0", "    frame z0", "      go z1 if elapsed >= %s" % float(plan["ticks"] * P), "    frame z1", "      enter", "        bid stop all", ""]
            return "\n".join(L) + "\n"

        def run(text):
            return run_script(text, period=float(P), cap=float((plan["ticks"] + 10) * P))

        def recs(r, k, both):
            # the recorder events of house k: in the two-house run the houses are told apart by the harness label of the running tasker
            o, cur = [], None
            for e in r.trace:
                if e[2] == "send" and cur is None:
                    cur = e[3]
                elif e[2] == "sent" and e[3] == cur:
                    cur = None
                elif e[2] == "rec":
                    mine = (cur is not None and cur.startswith("west.")) == (k == 1) if both else True
                    if mine:
                        o.append((round(e[1] / float(P)),) + tuple(e[3:]))
            return o

        both = house(0) + house(1)
        rb = run(both)
        alone = [run(house(0)), run(house(1))]
        for k, r in enumerate(alone):
            if not r.built or r.exc is not None:      # a well-formed program
                out.violate("rejected", "clone program rejected or raised", "house %d alone: exc=%r errors=%r\n%s" % (k, r.exc, getattr(r, "build_errors", None), house(k)))
                return
        out.probe("two-houses-rearing")
        if not rb.built or rb.exc is not None:
            out.violate("houses-raised", "two houses rearing and razing clones: the run raised %s" % (type(rb.exc[1]).__name__ if rb.exc else "build error"),
                        "exc=%r errors=%r\n%s" % (rb.exc, getattr(rb, "build_errors", None), both))
            return
        for k in (0, 1):
            a, b = recs(alone[k], k, False), recs(rb, k, True)
            tr.add("house", k, len(b))
            if a != b:
                d = next((i for i, (x, y) in enumerate(zip(a, b)) if x != y), min(len(a), len(b)))
                out.violate("houses-differ", "a house rearing and razing clones behaves differently next to another house",
                            "house %d: first difference at event %d: alone %r, with the other house %r\n%s" % (k, d, a[d:d + 2], b[d:d + 2], both))
                return
            if sum(1 for e in b if e[1] == "p0.enter") >= 2 * plan["nrear"][k]:
                out.probe("name-taken-again-in-a-second-house" if k == 1 else "name-taken-again-in-the-first-house")
        out.nontrivial = True

    def _via(self, plan, out, tr):
        """Family 3 (see generate): nested frames, each holding an insular clone of 'cell', which holds a clone of 'unit'."""
        goal = plan["goal"]
        holders = plan["holders"]
        vias = [(h if v else None) for h, v in zip(holders, plan["vias"])]
        inner = "mine" if plan["inner"] == "mine" else "inner"

        def script(hs, vs):
            L = ["house h", "", "  framer mission be active first %s%s" % (hs[-1], (" via %s" % plan["base"]) if plan["base"] else ""),
                 "    frame top", "      go fail if elapsed >= %s" % (float(Fraction(plan["P"])) * (goal + 12))]
            ind = "      "
            over = "top"
            for i, (h, v) in enumerate(zip(hs, vs)):
                L.append("%sframe %s in %s%s" % (ind, h, over, (" via %s" % v) if v else ""))
                L.append("%s  aux cell as mine" % ind)
                if i == len(hs) - 1:
                    L.append("%s  go fin if all is done" % ind)
                over = h
                ind += "  "
            L += ["    frame fin", "      bid stop all", "    frame fail", "      put 1 into .sim.failed", "      bid stop all", "",
                  "  framer cell be moot first hold", "    frame hold", "      aux unit as %s" % inner, "      go next if all is done", "    frame end", "      done", "",
                  "  framer unit be moot first load", "    frame load", "      put 0 into count of me", "      put 0 into ticks of framer", "      go next",
                  "    frame work", "      recur", "        inc count of me with 1", "        inc ticks of framer with 1", "      native",
                  "      go next if count of me >= %d" % goal, "    frame end", "      done", ""]
            return "\n".join(L) + "\n"

        def run(hs, vs):
            sc = script(hs, vs)
            r = run_script(sc, period=float(Fraction(plan["P"])), cap=float(Fraction(plan["P"])) * (goal + 30))
            return sc, r

        def ticks_of(r):
            got = {}
            for fr in r.house.framers:
                if fr.name in ("mission", "cell", "unit"):
                    continue
                sh = r.house.store.fetchShare("framer.%s.ticks" % fr.name)
                if sh is not None and sh.value is not None:
                    got[fr.name] = sh.value
            return got

        sa, ra = run(holders, vias)
        sb, rb = run(holders[:1], vias[:1])        # one outer clone alone
        for r, sc in ((rb, sb), (ra, sa)):
            if not r.built or r.exc is not None:      # both are well-formed programs
                out.violate("rejected", "clone program rejected or raised", "exc=%r errors=%r\n%s" % (r.exc, getattr(r, "build_errors", None), sc))
                return
        out.probe("nested-clones-under-frame-inodes")
        alone = ticks_of(rb)
        if len(alone) != 1 or list(alone.values())[0] != goal:
            # the original counts to its goal, one tick per run: a single nested clone that does anything else does not behave like it
            out.violate("via-behaviour", "a nested clone does not behave like its original", "a single nested clone worked for %r ticks, its original works for %d\n%s" % (alone, goal, sb))
            return
        got = ticks_of(ra)
        tr.add("via", sorted(got.values()))
        if sorted(got.values()) != [goal] * len(holders):
            out.violate("via-behaviour", "nested clones under different inodes do not behave like one of them alone",
                        "each inner clone alone works for %d ticks; with %d outer clones: %r\n%s" % (goal, len(holders), got, sa))
            return
        # distinct store paths: one 'count' share per inner clone, under the inode path of its own chain of main frames
        paths = []
        pre = [plan["base"]] if plan["base"] else []
        for i in range(len(holders)):
            chain = pre + [v for v in vias[:i + 1] if v]
            paths.append(".".join(chain + ["count"]))
        if len(set(paths)) == len(paths):
            for pth in paths:
                sh = ra.house.store.fetchShare(pth)
                if sh is None or sh.value != goal:
                    out.violate("via-paths", "inode-relative data of nested clones not at the inode path of their own main frames",
                                "expected share %s = %d, found %r (expected paths %r)\n%s" % (pth, goal, sh.value if sh is not None else None, paths, sa))
                    return
            out.probe("distinct-inode-paths")
        out.nontrivial = True

    def execute(self, plan):
        out = Outcome()
        tr = Trace(keep=False)
        if plan.get("mode") in ("via", "houses"):
            (self._via if plan["mode"] == "via" else self._houses)(plan, out, tr)
            out.digest = tr.digest()
            out.state_digest = hashlib.sha256(repr(sorted(plan.items(), key=repr)).encode()).hexdigest()[:16]
            return out
        rear = plan.get("mode") == "rear"
        A, B = build_programs(plan)
        sa, sb = emit(A), emit(B)
        P = Fraction(plan["P"])
        et = env_table(plan["env"])
        cap = float((plan["ticks"] + 10) * P)
        ra = run_script(sa, period=float(P), env_table=et, cap=cap, after_build=watch_rear_raze if rear else None)
        vals_a = self._relative(ra) if ra.built and ra.exc is None else {}
        twin = (not rear) or plan["clean"]
        if twin:
            rb = run_script(sb, period=float(P), env_table=et, cap=cap)
            vals_b = self._relative(rb) if rb.built and rb.exc is None else {}
            if not rb.built or rb.exc is not None:
                raise RuntimeError("harness: the copy program does not build / run: %r %r\n%s" % (rb.exc, getattr(rb, "build_errors", None), sb))
        if not ra.built or ra.exc is not None:
            out.violate("rejected", "clone program rejected or raised%s" % (" while its textual-copy twin runs" if twin else ""),
                        "exc=%r errors=%r\n%s" % (ra.exc, getattr(ra, "build_errors", None), sa))
            out.digest = tr.digest()
            return out
        text = repr(plan)
        if "'text': 'timeout " in text or "'text': 'repeat " in text:
            out.probe("clock-driven-original")
        if any(f.get("under") for o in plan["origs"] for f in o["frames"]):
            out.probe("under-override-in-original")
        if plan.get("second"):
            out.probe("clones-under-two-framers")
        if " is updated" in text or " is changed" in text:
            out.probe("marker-condition-in-original")
        if any(a.get("text", "").startswith("raze ") for o in plan["origs"] for f in o["frames"] for a in f["acts"]):
            out.probe("raze-inside-original")
        for key, probe in (("'as': 'mine'", "insular"), ("'as': 'nc", "named"), ("'as': 'nr", "named"), ("'as': 'kd", "nested-named")):
            if key in text:
                out.probe(probe)
        if any(a["k"] == "clone" for o in plan["origs"] for f in o["frames"] for a in f["acts"]):
            out.probe("nested")
        if "let me if counter of framer" in text:
            out.probe("relative-entry-need")
        if any(sum(1 for a in f["acts"] if a["k"] == "clone") >= 2 for o in plan["origs"] for f in o["frames"]):
            out.probe("two-nested-clones-in-one-frame")
        epochs = {}
        if rear:
            out.probe("reared")
            self._rear_raze_oracle(plan, ra, out, sa, P, epochs)

        def events(res, keyed):
            ev = []
            epoch = 0
            for e in res.trace:
                if e[2] == "rec":
                    ev.append((round(e[1] / float(P)), "rec", e[3], (e[4], epoch) if keyed and e[4] != "fm" else e[4], e[5], e[6]))
                elif e[2] == "sent" and e[3] == "fm":
                    ev.append((round(e[1] / float(P)), "sent", e[4], e[5], e[6][0], tuple(e[6][1]), round(e[6][2], 9), e[6][3]))
                elif e[2] == "raze" and [n for n in e[5] if n not in e[6]]:
                    epoch += 1      # names are reused after a raze: a framer is identified by (name, number of razes so far)
            return ev
        ea = events(ra, rear)
        amap = {}
        if twin and not out.violations:
            eb = events(rb, False)
            bmap = {}
            n = min(len(ea), len(eb))
            diff = None
            for i in range(n):
                x, y = ea[i], eb[i]
                if x[1] != y[1] or x[0] != y[0]:
                    diff = i
                    break
                if x[1] == "rec":
                    if (x[2], x[4], x[5]) != (y[2], y[4], y[5]):
                        diff = i
                        break
                    fa, fb = x[3], y[3]
                    ep = fa[1] if isinstance(fa, tuple) else 0
                    if amap.setdefault(fa, fb) != fb or bmap.setdefault((fb, ep), fa) != fa:
                        diff = i
                        break
                elif x[2:] != y[2:]:
                    diff = i
                    break
            if diff is None and len(ea) != len(eb):
                diff = n
            if diff is not None:
                out.violate("clone-differs", "a %s does not behave like a copy of its original" % ("reared clone" if rear else "clone"),
                            "first difference at event %d:\n clone program %r\n copy program  %r\nname map %r\n%s" % (diff, ea[diff:diff + 3], eb[diff:diff + 3], amap, sa))
            else:
                clones = [k for k in amap if k != "fm"]
                if len(clones) >= 2:
                    out.probe("two-clones-of-one-original")
                    out.nontrivial = True
                if not rear:
                    # relative state: one distinct store entry per clone, equal to its copy's
                    if len(set(vals_a)) != len(vals_a):
                        out.violate("shared-state", "two clones share a relative store path", repr(sorted(vals_a)))
                    for ca, cb in amap.items():
                        if ca == "fm":
                            continue
                        va, vb = vals_a.get(ca, "<none>"), vals_b.get(cb, "<none>")
                        if va != vb:
                            out.violate("relative-value", "a clone's framer-relative share differs from its copy's", "clone %s counter %r, copy %s counter %r\n%s" % (ca, va, cb, vb, sa))
                            break
        elif rear and not out.violations:
            out.nontrivial = True
        tr.add("events", len(ea), sorted((repr(k), v) for k, v in amap.items()), [e[2:] for e in ra.trace if e[2] in ("rear", "raze")])
        out.digest = tr.digest()
        out.state_digest = hashlib.sha256(sa.encode()).hexdigest()[:16]
        out.steps = plan["ticks"]
        out.sim_time = float(plan["ticks"] * P)
        return out

    def _rear_raze_oracle(self, plan, ra, out, sa, P, epochs):
        """Direct oracle on the rear / raze actions and what follows them (no twin needed)."""
        reared = {}      # host frame -> names created there by rear and not razed since
        dead = set()     # razed names not (yet) taken again
        openf = {}       # framer name -> frames entered and not exited

        def is_dead(n):
            return n in dead or any(n.startswith(d + "_") for d in dead)

        for e in ra.trace:
            kind = e[2]
            tick = round(e[1] / float(P))
            if kind == "rec":
                name = e[4]
                if name != "fm" and is_dead(name):
                    out.violate("razed-ran", "a razed clone ran again", "tick %d: action %s of %s in frame %s after it was razed\n%s" % (tick, e[3], name, e[5], sa))
                    return
                if e[6] == "enter":
                    openf.setdefault(name, set()).add(e[5])
                elif e[6] == "exit":
                    openf.setdefault(name, set()).discard(e[5])
            elif kind == "rear":
                host, orig, before, after, still, flags = e[3], e[4], e[5], e[6], e[7], e[8]
                if after[:len(before)] != before or len(after) != len(before) + 1:
                    out.violate("rear", "rear did not append exactly one clone to the host frame", "tick %d rear %s in %s: before %r after %r\n%s" % (tick, orig, host, before, after, sa))
                    return
                new = after[-1]
                if new in before or len(set(after)) != len(after):
                    out.violate("rear-name", "reared clone shares its name (and so its relative store paths) with a live clone", "tick %d: %r\n%s" % (tick, after, sa))
                    return
                fl = dict((n, (i, z)) for n, i, z in flags)
                if fl[new] != (True, True):
                    out.violate("rear-flags", "reared clone is not a razeable insular clone", "tick %d: %s insular / razeable = %r\n%s" % (tick, new, fl[new], sa))
                    return
                if is_dead(new):
                    out.probe("freed-name-taken-again")
                dead.discard(new)
                openf.pop(new, None)
                for k in [k for k in openf if k.startswith(new + "_")]:
                    openf.pop(k)
                reared.setdefault(host, []).append(new)
            elif kind == "raze":
                host, who, before, after, still, flags = e[3], e[4], e[5], e[6], e[7], e[8]
                cand = [n for n in before if n in reared.get(host, [])]
                want = cand if who == "all" else (cand[:1] if who == "first" else cand[-1:])
                gone = [n for n in before if n not in after]
                if gone != want or [n for n in before if n not in gone] != after:
                    out.violate("raze-set", "raze %s removed the wrong auxiliaries" % who,
                                "tick %d raze %s in %s: before %r after %r; razeable insular (reared) clones there %r, expected to go %r\n%s" % (tick, who, host, before, after, cand, want, sa))
                    return
                if still:
                    out.violate("raze-name", "the name of a razed clone (or of a clone nested in it) is still registered", "tick %d: %r\n%s" % (tick, still, sa))
                    return
                unreg = e[9] if len(e) > 9 else []
                stray = [n for n in unreg if not any(n == g or n.startswith(g + "_") for g in gone)]
                if stray:
                    out.violate("raze-collateral", "raze unregistered a framer that is neither a razed clone nor a clone nested in one",
                                "tick %d raze %s in %s removed %r from the framer registry (razed: %r)\n%s" % (tick, who, host, stray, gone, sa))
                    return
                if want:
                    out.probe("razed-" + who)
                    if len(cand) > len(want):
                        out.probe("raze-left-others")
                    if [n for n in before if n not in cand]:
                        out.probe("raze-spared-non-razeable")
                for n in gone:
                    if any(openf.get(k) for k in openf if k == n or k.startswith(n + "_")):
                        out.probe("razed-while-entered")
                    reared[host].remove(n)
                    dead.add(n)
        if not plan["clean"]:
            out.probe("dirty-plan")

    @staticmethod
    def _relative(res):
        vals = {}
        node = res.house.store.fetchNode("framer")
        if node is None:
            return vals
        for name, sub in node.items():
            sh = sub.get("counter") if hasattr(sub, "get") else None
            if sh is not None and hasattr(sh, "value"):
                vals[name] = sh.value
        return vals


CHECK = C12()
