"""C12 — cloned framers run like their originals and never share relative state.

Differential simulation: program A uses moot originals cloned several times (insular
'as mine', named 'as <name>', nested: an original that itself clones another original,
plain and conditional clone auxiliaries); program B is A with every clone replaced by an
ordinary auxiliary framer holding a textual copy of the original's frames in the same
role.  Both run under the real builder and skedder with the same environment history; the
traces must be equal up to the bijection of framer names given by first appearance, and the
framer-relative shares of distinct clones must be distinct store entries whose final values
equal those of the corresponding copies.
"""
import copy
import hashlib
from fractions import Fraction

from simkit.core import Outcome, Trace
from simkit.driver import Check
from flosim.lang import emit
from flosim.harness import run_script
from flosim.gen import env_table, SHARES
from checks.flocommon import COMPONENTS


def gen_original(g, name, prefix, others):
    n = g.randint(2, 3)
    frames = []
    for i in range(n):
        fn = "%s%d" % (prefix, i)
        acts = [{"k": "rec", "ctx": "enter", "tag": "%s.enter" % fn}, {"k": "rec", "ctx": "recur", "tag": "%s.recur" % fn}, {"k": "rec", "ctx": "exit", "tag": "%s.exit" % fn}]
        if i == 0:
            acts.append({"k": "raw", "ctx": "enter", "text": "put %d into counter of framer" % g.randint(0, 2)})
        acts.append({"k": "raw", "ctx": g.choice(["recur", "enter"]), "text": "inc counter of framer with %d" % g.choice([1, 1, 2])})
        if i > 0 and g.random() < 0.4:      # entry need on the clone's own relative data (or on absolute data)
            acts.append({"k": "raw", "ctx": None, "text": "let me if %s" % g.choice(["counter of framer >= %d" % g.randint(1, 4), "counter of framer <= %d" % g.randint(2, 6),
                                                                                    ".sim.x1 >= %d" % g.randint(0, 2), "counter of framer != %d" % g.randint(1, 4)])})
        if others and i == 0 and g.random() < 0.6:
            acts.append({"k": "clone", "orig": g.choice(others), "as": "mine", "needs": None})
        if i < n - 1:
            need = g.choice(["counter of framer >= %d" % g.randint(1, 5), "recurred >= %d" % g.randint(0, 3), ".sim.x0 >= %d" % g.randint(0, 3)])
            acts.append({"k": "raw", "ctx": None, "text": "go next if %s" % need})
        else:
            acts.append({"k": "raw", "ctx": g.choice(["enter", "recur"]), "text": "done me"})
        frames.append({"name": fn, "over": None, "acts": acts})
    return {"name": name, "sched": "moot", "order": None, "period": None, "first": frames[0]["name"], "frames": frames}


def gen_plan(g):
    P = g.choice(["0.125", "0.25"])
    ticks = g.randint(8, 30)
    origs = [gen_original(g, "orig0", "p", [])]
    if g.random() < 0.6:
        origs.append(gen_original(g, "orig1", "q", ["orig0"]))
    names = [o["name"] for o in origs]
    nframes = g.randint(2, 4)
    frames = []
    serial = [0]
    for i in range(nframes):
        fn = "m%d" % i
        acts = [{"k": "rec", "ctx": "enter", "tag": "%s.enter" % fn}, {"k": "rec", "ctx": "exit", "tag": "%s.exit" % fn}]
        for _ in range(g.randint(0, 2)):
            serial[0] += 1
            how = "mine" if g.random() < 0.6 else "nc%d" % serial[0]
            needs = None     # the builder refuses a clone as conditional auxiliary ("Conditional auxilary may not be clone")
            acts.append({"k": "clone", "orig": g.choice(names), "as": how, "needs": needs})
        acts.append({"k": "raw", "ctx": None, "text": g.choice(["go next if all is done", "go next if elapsed >= %s" % g.choice(["0.5", "1.0", "1.5"]), "go next if recurred >= %d" % g.randint(1, 6)])
                     if i < nframes - 1 else "go m0 if recurred >= %d" % g.randint(2, 6)})
        frames.append({"name": fn, "over": None, "acts": acts})
    main = {"name": "fm", "sched": "active", "order": None, "period": None, "first": "m0", "frames": frames}
    env = {}
    for t in range(ticks):
        if g.random() < 0.4:
            env[str(t)] = [[g.choice(SHARES[:2]), "value", g.randint(0, 4)]]
    return {"P": P, "ticks": ticks, "main": main, "origs": origs, "env": {"0": env}}


def build_programs(plan):
    """Returns (program A with clones, program B with copies)."""
    origs = dict((o["name"], o) for o in plan["origs"])

    def tail(ticks):
        return [{"name": "zenv", "sched": "active", "order": "front", "period": None, "first": "zenv0",
                 "frames": [{"name": "zenv0", "over": None, "acts": [{"k": "env", "ctx": "recur", "eid": 0}]}]},
                {"name": "zclk", "sched": "active", "order": "back", "period": None, "first": "zclk0",
                 "frames": [{"name": "zclk0", "over": None, "acts": [{"k": "repeat", "n": ticks}]},
                            {"name": "zclk1", "over": None, "acts": [{"k": "bid", "ctx": "enter", "control": "stop", "who": ["all"]}]}]}]

    def a_frames(frames):
        out = []
        for f in frames:
            acts = []
            for a in f["acts"]:
                if a["k"] == "clone":
                    acts.append({"k": "raw", "ctx": None, "text": "aux %s as %s%s" % (a["orig"], a["as"], (" if " + a["needs"]) if a["needs"] else "")})
                else:
                    acts.append(a)
            out.append({"name": f["name"], "over": f.get("over"), "acts": acts})
        return out

    A = {"house": "h", "inits": [[s, 0] for s in SHARES],
         "framers": [dict(plan["main"], frames=a_frames(plan["main"]["frames"]))] + [dict(o, frames=a_frames(o["frames"])) for o in plan["origs"]] + tail(plan["ticks"])}
    copies = []
    counter = [0]

    def b_frames(frames):
        out = []
        for f in frames:
            acts = []
            for a in f["acts"]:
                if a["k"] == "clone":
                    counter[0] += 1
                    cname = "cp%d" % counter[0]
                    o = origs[a["orig"]]
                    cp = {"name": cname, "sched": "aux", "order": None, "period": None, "first": o["first"], "frames": None}
                    copies.append(cp)
                    cp["frames"] = b_frames(o["frames"])
                    acts.append({"k": "raw", "ctx": None, "text": "aux %s%s" % (cname, (" if " + a["needs"]) if a["needs"] else "")})
                else:
                    acts.append(a)
            out.append({"name": f["name"], "over": f.get("over"), "acts": acts})
        return out

    bmain = dict(plan["main"], frames=b_frames(plan["main"]["frames"]))
    B = {"house": "h", "inits": [[s, 0] for s in SHARES], "framers": [bmain] + copies + tail(plan["ticks"])}
    return A, B


class C12(Check):
    pid = "C12"
    level = "exploration"
    engine = "flosim"
    design_ref = "§6 C12"
    rule = ("generated programs whose main framer's frames clone one or two moot originals several times as insular ('as mine') and "
            "named clones (plain auxiliaries; the builder refuses clones as conditional auxiliaries), the second original itself cloning the first (clones inside "
            "clones), originals using framer-relative data ('counter of framer') to drive their transitions, entry needs ('let me if counter of framer ...') and 'done'; the "
            "clone program and its textual-copy twin are run with the same environment history and compared: recorder events "
            "(tag, frame, context, tick) and the main framer's state after every run equal up to the first-appearance bijection "
            "of framer names; relative shares of distinct clones distinct and finally equal to the copies'; non-trivial = at "
            "least two clones of one original ran; distinct = digest of the clone program")
    components = dict(COMPONENTS)
    assumptions = ["rear / raze at run time are not exercised by this check (only build-time clones: insular, named, nested, conditional)",
                   "program B (textual copies as ordinary auxiliaries) is the statement's 'what its original would produce alone'"]
    required_probes = ["insular", "named", "nested", "two-clones-of-one-original", "relative-entry-need"]
    quick_runs = 3000
    thorough_runs = 150000
    shrink_fields = []

    def generate(self, S, index, tier):
        return gen_plan(S.gen)

    def execute(self, plan):
        out = Outcome()
        tr = Trace(keep=False)
        A, B = build_programs(plan)
        sa, sb = emit(A), emit(B)
        P = Fraction(plan["P"])
        et = env_table(plan["env"])
        cap = float((plan["ticks"] + 10) * P)
        ra = run_script(sa, period=float(P), env_table=et, cap=cap)
        vals_a = self._relative(ra) if ra.built and ra.exc is None else {}
        rb = run_script(sb, period=float(P), env_table=et, cap=cap)
        vals_b = self._relative(rb) if rb.built and rb.exc is None else {}
        if not rb.built or rb.exc is not None:
            raise RuntimeError("harness: the copy program does not build / run: %r %r\n%s" % (rb.exc, getattr(rb, "build_errors", None), sb))
        if not ra.built or ra.exc is not None:
            out.violate("rejected", "clone program rejected or raised while its textual-copy twin runs", "exc=%r errors=%r\n%s" % (ra.exc, getattr(ra, "build_errors", None), sa))
            out.digest = tr.digest()
            return out
        text = repr(plan)
        for key, probe in (("'as': 'mine'", "insular"), ("'as': 'nc", "named")):
            if key in text:
                out.probe(probe)
        if any(a["k"] == "clone" for o in plan["origs"] for f in o["frames"] for a in f["acts"]):
            out.probe("nested")
        if "let me if counter of framer" in text:
            out.probe("relative-entry-need")
        if any(a["k"] == "clone" and a["needs"] for f in plan["main"]["frames"] for a in f["acts"]):
            out.probe("conditional-clone")

        def events(res):
            ev = []
            for e in res.trace:
                if e[2] == "rec":
                    ev.append((round(e[1] / float(P)), "rec", e[3], e[4], e[5], e[6]))
                elif e[2] == "sent" and e[3] == "fm":
                    ev.append((round(e[1] / float(P)), "sent", e[4], e[5], e[6][0], tuple(e[6][1]), round(e[6][2], 9), e[6][3]))
            return ev
        ea, eb = events(ra), events(rb)
        amap, bmap = {}, {}
        n = min(len(ea), len(eb))
        diff = None
        for i in range(n):
            x, y = ea[i], eb[i]
            if x[1] != y[1] or x[0] != y[0]:
                diff = i
                break
            if x[1] == "rec":
                if (x[2], x[4], x[5]) != (y[2], y[4], y[5]):
                    diff = i
                    break
                fa, fb = x[3], y[3]
                if amap.setdefault(fa, fb) != fb or bmap.setdefault(fb, fa) != fa:
                    diff = i
                    break
            elif x[2:] != y[2:]:
                diff = i
                break
        if diff is None and len(ea) != len(eb):
            diff = n
        if diff is not None:
            out.violate("clone-differs", "a clone does not behave like a copy of its original",
                        "first difference at event %d:\n clone program %r\n copy program  %r\nname map %r\n%s" % (diff, ea[diff:diff + 3], eb[diff:diff + 3], amap, sa))
        else:
            clones = [k for k in amap if k not in ("fm",)]
            per_orig = {}
            for k in clones:
                per_orig.setdefault(k.rsplit("_", 1)[-1].rstrip("0123456789"), []).append(k)
            if len(clones) >= 2:
                out.probe("two-clones-of-one-original")
                out.nontrivial = True
            # relative state: one distinct store entry per clone, equal to its copy's
            if len(set(vals_a)) != len(vals_a):
                out.violate("shared-state", "two clones share a relative store path", repr(sorted(vals_a)))
            for ca, cb in amap.items():
                if ca == "fm":
                    continue
                va, vb = vals_a.get(ca, "<none>"), vals_b.get(cb, "<none>")
                if va != vb:
                    out.violate("relative-value", "a clone's framer-relative share differs from its copy's", "clone %s counter %r, copy %s counter %r\n%s" % (ca, va, cb, vb, sa))
                    break
        tr.add("events", len(ea), sorted(amap.items()))
        out.digest = tr.digest()
        out.state_digest = hashlib.sha256(sa.encode()).hexdigest()[:16]
        out.steps = plan["ticks"]
        out.sim_time = float(plan["ticks"] * P)
        return out

    @staticmethod
    def _relative(res):
        vals = {}
        node = res.house.store.fetchNode("framer")
        if node is None:
            return vals
        for name, sub in node.items():
            sh = sub.get("counter") if hasattr(sub, "get") else None
            if sh is not None and hasattr(sh, "value"):
                vals[name] = sh.value
        return vals


CHECK = C12()
