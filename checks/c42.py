"""C42 — timers report elapsed / remaining / expiry consistently with their clock.

System: real Timer, MonoTimer, StoreTimer (ioflo/aid/timing.py) and real Store.
Simulated: the wall clock (timing.time -> SimTime) with a fault possible at
every individual clock read, and the store clock (advanced / set back by ops).
All clock values and durations are multiples of 1/8 well inside float's exact
range, so the model's arithmetic is exact and comparisons are equality.
"""
from simkit.core import Outcome, Trace
from simkit.driver import Check
from substrate.shims import SimTime

U = 0.125


class Model(object):
    """Reference timer written from the statement; `clock()` is the instant of the read."""

    def __init__(self, kind, retro):
        self.kind, self.retro = kind, retro
        self.start = self.stop = self.dur = None
        self.latest = None

    # mono bookkeeping: every operation observes the clock once
    def observe(self, c):
        if self.kind != "mono":
            return None
        if self.latest is not None and c < self.latest:
            if not self.retro:
                self.latest = self.latest  # unchanged: the real one raises before updating
                return "raise"
            d = c - self.latest
            if self.start is not None:
                self.start += d
                self.stop += d
        self.latest = c
        return None


class C42(Check):
    pid = "C42"
    level = "exploration"
    engine = "clock"
    design_ref = "§6 C42"
    rule = ("seeded sequences of timer operations (new/elapsed/remaining/expired/restart/repeat/extend) on Timer, "
            "MonoTimer(retro on/off) and StoreTimer, interleaved with a clock script that may stand still, step forward or "
            "jump backward at every individual clock read; a run is non-trivial when at least one clock fault fired; "
            "distinct = distinct sequence of (operation, expired/raised) abstractions")
    components = {"real": ["ioflo.aid.timing.Timer", "ioflo.aid.timing.MonoTimer", "ioflo.aid.timing.StoreTimer",
                           "ioflo.base.storing.Store (stamp only)"],
                  "stub": ["time module seen by ioflo.aid.timing (SimTime)"]}
    assumptions = ["clock values and durations are dyadic rationals so float arithmetic is exact",
                   "a clock fault may occur at any individual clock read, including between the two reads in a constructor"]
    required_probes = ["mono.retro.shift", "mono.noretro.raise", "expired.boundary", "repeat", "extend",
                       "store.backward"]
    quick_runs = 30000
    thorough_runs = 1500000
    shrink_fields = ["ops", "clock"]

    def directed(self):
        return [
            {"kind": "mono", "retro": True, "dur": 8, "clock": [8, -16, 8, 8],
             "ops": [["new"], ["elapsed"], ["remaining"], ["expired"]]},           # jump between the two ctor reads
            {"kind": "mono", "retro": True, "dur": 8, "clock": [8, 0, 8, -24, 4, 4, 4],
             "ops": [["new"], ["elapsed"], ["elapsed"], ["remaining"], ["expired"], ["repeat"], ["extend", 8]]},
            {"kind": "mono", "retro": False, "dur": 8, "clock": [8, 0, 8, -24, 4],
             "ops": [["new"], ["elapsed"], ["elapsed"], ["expired"]]},
            {"kind": "wall", "retro": False, "dur": 8, "clock": [8, 8, 0, -4, 4, 64],
             "ops": [["new"], ["expired"], ["expired"], ["elapsed"], ["remaining"], ["repeat"], ["extend", None], ["restart", None, 16]]},
            {"kind": "store", "retro": False, "dur": 8, "clock": [],
             "ops": [["new"], ["adv", 8], ["expired"], ["adv", -16], ["elapsed"], ["remaining"], ["repeat"], ["extend", -8], ["expired"]]},
        ]

    def generate(self, S, index, tier):
        g = S.gen
        kind = g.choice(["wall", "mono", "mono", "store"])
        retro = g.random() < 0.7 if kind == "mono" else False
        fault_mode = g.choice(["none", "back", "still", "mixed", "mixed"])
        n = g.randint(3, 25)
        ops = [["new"]]
        for _ in range(n):
            r = g.random()
            if r < 0.45:
                ops.append([g.choice(["elapsed", "remaining", "expired"])])
            elif r < 0.55:
                ops.append(["repeat"])
            elif r < 0.65:
                ops.append(["extend", g.choice([None, g.randint(0, 40), -g.randint(0, 4)])])
            elif r < 0.80:
                ops.append(["restart", g.choice([None, None, g.randint(7000, 9000)]), g.choice([None, g.randint(0, 40)])])
            elif r < 0.85:
                ops.append(["new"])
            else:
                ops.append(["adv", self._delta(g, fault_mode)])
        clock = [self._delta(g, fault_mode) for _ in range(g.randint(0, 3 * n))]
        return {"kind": kind, "retro": retro, "dur": g.choice([0, 1, 8, g.randint(0, 80)]), "clock": clock, "ops": ops}

    @staticmethod
    def _delta(g, mode):
        r = g.random()
        if mode in ("back", "mixed") and r < 0.15:
            return -g.randint(1, 400)
        if mode in ("still", "mixed") and r < 0.30:
            return 0
        if r > 0.95:
            return g.randint(64, 4000)
        return g.randint(1, 24)

    def execute(self, plan):
        import ioflo.aid.timing as timing
        from ioflo.base import excepting
        from ioflo.base.storing import Store
        out = Outcome()
        tr = Trace(keep=False)
        abstract = []
        kind, retro = plan["kind"], plan["retro"]
        script = [d * U for d in plan["clock"]]
        clk = SimTime(now=1000.0, script=script, default=U, out=out)
        clk.log = []
        saved = timing.time
        timing.time = clk
        store = Store(stamp=1000.0)
        name = {"wall": "Timer", "mono": "MonoTimer", "store": "StoreTimer"}[kind]
        m = None
        t = None
        last_elapsed = None

        try:
            for op in plan["ops"]:
                code = op[0]
                if code == "adv":
                    d = op[1] * U
                    if kind == "store":
                        if store.stamp + d < 0:
                            continue
                        store.changeStamp(store.stamp + d)
                        if d < 0:
                            out.fault("store.backward")
                            out.probe("store.backward")
                        elif d == 0:
                            out.fault("store.standstill")
                    else:
                        clk.now = max(1.0, clk.now + d)
                    tr.add("adv", op[1])
                    continue
                if t is None and code != "new":
                    continue
                reads0 = clk.reads
                t0 = clk.now
                exc = None
                res = None
                try:
                    if code == "new":
                        dur = plan["dur"] * U
                        if kind == "wall":
                            t_new = timing.Timer(duration=dur)
                        elif kind == "mono":
                            t_new = timing.MonoTimer(duration=dur, retro=retro)
                        else:
                            t_new = timing.StoreTimer(store, duration=dur)
                        t = t_new
                        res = (t.start, t.stop)
                    elif code == "elapsed":
                        res = t.elapsed
                    elif code == "remaining":
                        res = t.remaining
                    elif code == "expired":
                        res = t.expired
                    elif code == "restart":
                        s = None if op[1] is None else op[1] * U
                        d = None if op[2] is None else op[2] * U
                        res = t.restart(start=s, duration=d)
                    elif code == "repeat":
                        res = t.repeat()
                        out.probe("repeat")
                    elif code == "extend":
                        e = None if op[1] is None else op[1] * U
                        if e is not None and t.duration + e < 0:
                            continue
                        res = t.extend(e)
                        out.probe("extend")
                except excepting.TimerRetroError as ex:
                    exc = "TimerRetroError"
                except Exception as ex:  # anything else from the timer is wrong by the statement
                    exc = type(ex).__name__
                seen = clk.log[reads0:]  # the clock values returned during this call (recorded by the simulator)
                want_exc, want = self._model_step(plan, m, kind, retro, code, op, seen, store, out)
                if code == "new":
                    m = want_exc[1] if isinstance(want_exc, tuple) else m
                    want_exc = want_exc[0] if isinstance(want_exc, tuple) else want_exc
                tr.add(code, op[1:] if len(op) > 1 else None, exc, res)
                abstract.append((code, exc, res if isinstance(res, bool) else None))
                if exc != want_exc:
                    sig = "%s.%s raised=%s expected=%s" % (name, code, exc, want_exc)
                    out.violate("exception", sig,
                                "op %r: implementation raised %s, statement requires %s; clock reads %r" % (op, exc, want_exc, seen))
                    if exc is not None and code == "new":
                        break
                    if want_exc is not None or exc is not None:
                        # after a divergence on raising, the two states are not comparable any more
                        break
                    continue
                if exc is not None:
                    if code == "new":
                        t = None
                    continue
                if want is not None and res != want:
                    out.violate("mismatch", "%s.%s" % (name, code),
                                "op %r returned %r, model %r; clock reads %r" % (op, res, want, seen))
                    break
                if code == "elapsed" and kind == "mono" and retro:
                    if last_elapsed is not None and res < last_elapsed:
                        out.violate("mono-decrease", "MonoTimer.elapsed decreased", "%r -> %r" % (last_elapsed, res))
                    last_elapsed = res
                if code in ("new", "restart", "repeat"):
                    last_elapsed = None
        finally:
            timing.time = saved
        out.digest = tr.digest()
        import hashlib
        out.state_digest = hashlib.sha256(repr(abstract).encode()).hexdigest()[:16]
        out.sim_time = clk.now - 1000.0 if kind != "store" else store.stamp - 1000.0
        out.steps = len(plan["ops"])
        out.nontrivial = any(k.startswith(("clock.back", "clock.stand", "store.back")) for k in out.faults)
        return out

    def _model_step(self, plan, m, kind, retro, code, op, seen, store, out):
        """Returns (expected exception name or None, expected result or None).  For 'new' the first
        element is a tuple (exc, model).  The model is driven by the clock values that were actually
        read during the call: a wall timer uses the last one, a monotonic timer *observes* every one
        in order (compensating or raising on each backward step), a store timer reads store.stamp."""
        if code == "new":
            m = Model(kind, retro)
            dur = plan["dur"] * U
            if kind == "mono":
                m.latest = m.start = seen[0]
                m.dur = dur
                m.stop = m.start + dur
                for c in seen[1:]:
                    if c < m.latest:
                        out.probe("ctor.jump")
                        if not retro:
                            out.probe("mono.noretro.raise")
                            return ("TimerRetroError", None), None
                        out.probe("mono.retro.shift")
                    m.observe(c)
                return (None, m), (m.start, m.stop)
            c = store.stamp if kind == "store" else seen[-1]
            m.start, m.dur = c, dur
            m.stop = c + dur
            return (None, m), (m.start, m.stop)
        if kind == "mono":
            if not seen:
                return "model: monotonic timer did not read its clock", None
            for c in seen:
                if c < m.latest:
                    if not retro:
                        out.probe("mono.noretro.raise")
                        return "TimerRetroError", None
                    out.probe("mono.retro.shift")
                m.observe(c)
            clock = m.latest
        elif kind == "wall":
            clock = seen[-1] if seen else None
        else:
            clock = store.stamp
        if code in ("elapsed", "remaining", "expired"):
            if code == "elapsed":
                return None, max(0.0, clock - m.start)
            if code == "remaining":
                return None, max(0.0, m.stop - clock)
            if clock == m.stop:
                out.probe("expired.boundary")
            return None, clock >= m.stop
        if code == "restart":
            s, d = op[1], op[2]
            m.start = clock if s is None else s * U
            if d is not None:
                m.dur = d * U
            m.stop = m.start + m.dur
            return None, (m.start, m.stop)
        if code == "repeat":
            m.start = m.stop
            m.stop = m.start + m.dur
            return None, (m.start, m.stop)
        if code == "extend":
            e = m.dur if op[1] is None else op[1] * U
            m.dur = m.dur + e
            m.stop = m.start + m.dur
            return None, (m.start, m.stop)
        raise AssertionError(code)


CHECK = C42()
