"""C05 — a running framer's active frames are exactly its active frame's outline."""
from checks.flocommon import FloCheck
from checks.floinv import check_actives
from flosim.gen import cfg_with


class C05(FloCheck):
    pid = "C05"
    design_ref = "§6 C05"
    cfg = cfg_with(p_susp_sibling=0.15, p_go_me_parent=0.3, nframes=(2, 7), p_child=0.7, p_under=0.3, naux=(0, 2), p_caux=0.35, p_aux=0.1, p_bid=0.25, nslaves=(0, 1))
    rule = ("generated frame forests (nesting via 'in', primary-child overrides via 'under', several children) with transitions, "
            "conditional auxiliaries and stop / abort bids; after every framer run the active frames are compared with the chain "
            "computed from the AST (ancestors, active frame, primary children to a leaf; cut at the main frame of a running "
            "conditional aux; empty when stopped or aborted) and with the reference interpreter; non-trivial = a nested outline "
            "of depth >= 2 was active; distinct = digest of per-run (status, active outline)")
    assumptions = ["direct invariant computed from the AST; the reference interpreter is a second opinion"]
    directed_files = ("flo-overlapping-suspensions", "flo-cond-aux-ended-from-outside-not-restarted")
    required_probes = ["nested", "cut-at-conditional-aux", "under-override", "stopped-empty", "forced-reentry-of-active-frame-while-suspended"]

    def relevant(self, kind):
        return kind in ("active-outline", "status")

    @staticmethod
    def project(e):
        return e[1] in ("send", "sent")

    def invariants(self, plan, res, impl, out):
        check_actives(plan, impl, out)

    def probes(self, plan, res, impl, out):
        from checks.flocommon import outline_of
        frs = dict((f["name"], f) for f in plan["program"]["framers"])
        last = {}
        for e in impl:
            if e[1] == "sent" and e[5] and e[5][0]:
                full = outline_of(frs[e[2]], e[5][0])
                prev = last.get(e[2])
                if prev and prev[2] and prev[0] == e[5][0] and e[5][2] == 0 and prev[1] > 0 and e[4] == 2:
                    out.probe("forced-reentry-of-active-frame-while-suspended")
                last[e[2]] = (e[5][0], e[5][2], len(e[5][1]) < len(full))
            elif e[1] == "sent":
                last.pop(e[2], None)
        for e in impl:
            if e[1] == "sent" and e[5]:
                if len(e[5][1]) >= 2:
                    out.probe("nested")
                    out.nontrivial = True
                if e[4] in (0, 3) and not e[5][1]:
                    out.probe("stopped-empty")
        if "'under':" in repr(plan["program"]):
            out.probe("under-override")


CHECK = C05()
