"""C05 — a running framer's active frames are exactly its active frame's outline."""
from checks.flocommon import FloCheck
from checks.floinv import check_actives
from flosim.gen import cfg_with


class C05(FloCheck):
    pid = "C05"
    design_ref = "§6 C05"
    cfg = cfg_with(nframes=(2, 7), p_child=0.7, p_under=0.3, naux=(0, 2), p_caux=0.35, p_aux=0.1, p_bid=0.25, nslaves=(0, 1))
    rule = ("generated frame forests (nesting via 'in', primary-child overrides via 'under', several children) with transitions, "
            "conditional auxiliaries and stop / abort bids; after every framer run the active frames are compared with the chain "
            "computed from the AST (ancestors, active frame, primary children to a leaf; cut at the main frame of a running "
            "conditional aux; empty when stopped or aborted) and with the reference interpreter; non-trivial = a nested outline "
            "of depth >= 2 was active; distinct = digest of per-run (status, active outline)")
    assumptions = ["direct invariant computed from the AST; the reference interpreter is a second opinion"]
    required_probes = ["nested", "cut-at-conditional-aux", "under-override", "stopped-empty"]

    def relevant(self, kind):
        return kind in ("active-outline", "status")

    def invariants(self, plan, res, impl, out):
        check_actives(plan, impl, out)

    def probes(self, plan, res, impl, out):
        for e in impl:
            if e[1] == "sent" and e[5]:
                if len(e[5][1]) >= 2:
                    out.probe("nested")
                    out.nontrivial = True
                if e[4] in (0, 3) and not e[5][1]:
                    out.probe("stopped-empty")
        if "'under':" in repr(plan["program"]):
            out.probe("under-override")


CHECK = C05()
