"""C29 — HTTP messages parse the same however their bytes arrive.

Real: Respondent via Patron (against a scripted raw server) and Requestant via Valet
(against a scripted raw client), Client / Server transports underneath.  Simulated: the
network, which fragments the message at the plan's cut positions, and how many service
calls happen between deliveries.  Oracle: parsed fields == the generator's content, for the
split delivery and for the whole delivery; bytes after the message belong to the next one.
"""
import hashlib

from simkit.core import Outcome, Trace, Streams
from simkit.driver import Check
from netharn.http import http_world, HPORT, gen_headers, body_bytes, chunk_encode, pack_headers, split_bytes
from substrate.net import SimSocket

REASONS = {200: "OK", 201: "Created", 404: "Not Found", 500: "Internal Server Error", 203: "Non Authoritative Information"}


def gen_response(g, allow_close=True, nospace_ok=True):
    version = g.choice(["HTTP/1.1", "HTTP/1.1", "HTTP/1.0"])
    status = g.choice(list(REASONS))
    mode = g.choice(["length", "length", "chunked", "close"] if allow_close else ["length", "chunked"])
    if version == "HTTP/1.0" and mode == "chunked":
        mode = "length"
    body = body_bytes(g, g.choice([0, 1, 5, g.randint(0, 40), g.randint(10, 70)]))
    headers = gen_headers(g)
    parms, trailers = {}, []
    if mode == "length":
        headers.insert(g.randint(0, len(headers)), ("Content-Length", str(len(body))))
        payload = body
    elif mode == "chunked":
        headers.insert(g.randint(0, len(headers)), ("Transfer-Encoding", "chunked"))
        payload, parms, trailers = chunk_encode(g, body)
    else:
        if version == "HTTP/1.1":
            headers.append(("Connection", "close"))
        payload = body
    nospace = [i for i in range(len(headers)) if nospace_ok and g.random() < 0.25]
    raw = ("%s %d %s\r\n" % (version, status, REASONS[status])).encode() + pack_headers(headers, nospace) + b"\r\n" + payload
    return {"raw": raw, "mode": mode, "status": status, "reason": REASONS[status], "headers": [list(h) for h in headers],
            "body": body, "parms": [[k, v] for k, v in parms.items()], "trailers": [list(t) for t in trailers],
            "nospace": len(nospace)}


def gen_request(g, nospace_ok=True):
    method = g.choice(["GET", "POST", "PUT", "DELETE", "PATCH"])
    path = "/" + "/".join(g.choice(["a", "bc", "x1", "data", "v2"]) for _ in range(g.randint(1, 3)))
    query = g.choice(["", "", "a=1", "a=1&b=two", "flag"])
    version = g.choice(["HTTP/1.1", "HTTP/1.1", "HTTP/1.0"])
    mode = "none" if method in ("GET", "DELETE") else g.choice(["length", "chunked"])
    if version == "HTTP/1.0" and mode == "chunked":
        mode = "length"
    headers = [("Host", "127.0.0.1:%d" % HPORT)] + gen_headers(g)
    if version == "HTTP/1.0":
        headers.append(("Connection", "keep-alive"))
    body = b""
    parms, trailers = {}, []
    payload = b""
    if mode == "length":
        body = body_bytes(g, g.choice([0, 1, 5, g.randint(0, 40), g.randint(10, 70)]))
        headers.insert(g.randint(1, len(headers)), ("Content-Length", str(len(body))))
        payload = body
    elif mode == "chunked":
        body = body_bytes(g, g.choice([0, 1, 5, g.randint(0, 40), g.randint(10, 70)]))
        headers.insert(g.randint(1, len(headers)), ("Transfer-Encoding", "chunked"))
        payload, parms, trailers = chunk_encode(g, body)
    nospace = [i for i in range(len(headers)) if nospace_ok and g.random() < 0.25]
    url = path + ("?" + query if query else "")
    raw = ("%s %s %s\r\n" % (method, url, version)).encode() + pack_headers(headers, nospace) + b"\r\n" + payload
    return {"raw": raw, "mode": mode, "method": method, "path": path, "query": query,
            "version": [1, 1] if version == "HTTP/1.1" else [1, 0], "headers": [list(h) for h in headers],
            "body": body, "parms": [[k, v] for k, v in parms.items()], "trailers": [list(t) for t in trailers],
            "nospace": len(nospace)}


def _hdr_equal(parsed, want):
    if parsed is None:
        return False
    got = dict((k.lower(), v) for k, v in parsed.items())
    exp = dict((k.lower(), v) for k, v in want)
    return got == exp


class C29(Check):
    pid = "C29"
    level = "exploration"
    engine = "netsim.http"
    design_ref = "§6 C29"
    rule = ("generated well-formed HTTP/1.x responses (fixed length, chunked with extensions and trailers, read until "
            "close) and requests (no body, fixed length, chunked), header lines with and without a space after the colon, "
            "optionally a second message pipelined behind the first, delivered through the simulated network in the "
            "pieces given by a cut vector (1-3 cuts, many cuts, or every byte) with 1-3 service calls between "
            "deliveries; each run also parses the unsplit message; non-trivial = the message was actually split; "
            "distinct = distinct (message shape, cut vector) digests")
    components = {"real": ["ioflo.aio.http.clienting.Patron/Respondent", "ioflo.aio.http.serving.Valet/Requestant/Responder",
                           "ioflo.aio.http.httping parsers", "ioflo.aio.tcp Client/Server/Incomer"],
                  "stub": ["socket module", "raw scripted far end", "WSGI app (records the parsed request, answers 'ok')"]}
    assumptions = ["only well-formed messages are generated; header values have no leading/trailing whitespace and no duplicates"]
    required_probes = ["response", "request", "chunked", "close", "pipelined", "every-byte", "nospace", "trailers"]
    quick_runs = 12000
    thorough_runs = 600000
    shrink_fields = ["cuts"]

    def directed(self):
        g = Streams(424242).gen
        d = []
        for side in ("response", "request"):
            for k in range(4):
                m1 = gen_response(g, allow_close=False, nospace_ok=False) if side == "response" else gen_request(g, nospace_ok=False)
                m2 = gen_response(g, nospace_ok=False) if side == "response" else gen_request(g, nospace_ok=False)
                n = len(m1["raw"]) + len(m2["raw"])
                d.append({"side": side, "msgs": [m1, m2], "cuts": list(range(1, n)), "svc": 1, "bs": 64})
        return d

    def generate(self, S, index, tier):
        g = S.gen
        side = "response" if index % 2 == 0 else "request"
        two = g.random() < 0.4
        if side == "response":
            m1 = gen_response(g, allow_close=not two)
            msgs = [m1] + ([gen_response(g)] if two else [])
        else:
            msgs = [gen_request(g)] + ([gen_request(g)] if two else [])
        n = sum(len(m["raw"]) for m in msgs)
        s = S.sched
        r = s.random()
        if r < 0.5:
            cuts = sorted(s.randint(1, max(1, n - 1)) for _ in range(s.randint(1, 3)))
        elif r < 0.8:
            cuts = sorted(s.randint(1, max(1, n - 1)) for _ in range(s.randint(4, 25)))
        elif r < 0.9:
            cuts = list(range(1, n))
        else:
            # cuts right around line ends and the head/body boundary
            raw = b"".join(m["raw"] for m in msgs)
            marks = [i for i in range(len(raw)) if raw[i:i + 1] in (b"\r", b"\n")]
            cuts = sorted(set(min(n - 1, max(1, s.choice(marks) + s.choice([0, 1, 2]))) for _ in range(s.randint(1, 6)))) if marks else [1]
        return {"side": side, "msgs": msgs, "cuts": cuts, "svc": s.choice([1, 1, 2, 3]), "bs": g.choice([1, 3, 16, 4096])}

    # ------------------------------------------------------------------
    def execute(self, plan):
        out = Outcome()
        tr = Trace(keep=False)
        side = plan["side"]
        msgs = plan["msgs"]
        raw = b"".join(m["raw"] for m in msgs)
        pieces = split_bytes(raw, plan["cuts"])
        out.probe(side)
        for m in msgs:
            if m["mode"] in ("chunked", "close"):
                out.probe(m["mode"])
            if m["nospace"]:
                out.probe("nospace")
            if m["trailers"]:
                out.probe("trailers")
        if len(msgs) > 1:
            out.probe("pipelined")
        if len(pieces) == len(raw) and len(raw) > 1:
            out.probe("every-byte")
        run = self._response if side == "response" else self._request
        split_res = run(plan, pieces, tr)
        whole_res = run(plan, [raw], tr) if len(pieces) > 1 else split_res
        for label, res in (("split", split_res), ("whole", whole_res)):
            if label == "whole" and whole_res is split_res:
                break
            bad = self._compare(side, msgs, res)
            if bad:
                other = self._compare(side, msgs, whole_res if label == "split" else split_res)
                dep = "split-dependent" if (label == "split" and not other) else "any-delivery"
                out.violate(bad[0], "%s %s %s" % (side, bad[0], dep), "%s delivery in %d pieces: %s" % (label, len(pieces) if label == "split" else 1, bad[1]))
                break
        tr.add("res", repr(split_res)[:2000])
        out.digest = tr.digest()
        shape = [(m["mode"], len(m["raw"]), m["nospace"] > 0) for m in msgs]
        out.state_digest = hashlib.sha256(repr((side, shape, plan["cuts"])).encode()).hexdigest()[:16]
        out.nontrivial = len(pieces) > 1
        out.steps = len(pieces)
        return out

    def _compare(self, side, msgs, res):
        if "exception" in res:
            return ("exception:" + res["exception"][0], res["exception"][1])
        got = res["parsed"]
        if len(got) != len(msgs):
            return ("count", "parsed %d messages, sent %d; parsed=%r leftover=%r" % (len(got), len(msgs), got, res.get("leftover")))
        for i, (p, m) in enumerate(zip(got, msgs)):
            if p.get("errored"):
                return ("errored", "message %d reported error %r" % (i, p.get("error")))
            if side == "response":
                if (p["status"], p["reason"]) != (m["status"], m["reason"]):
                    return ("start-line", "message %d status %r %r != %r %r" % (i, p["status"], p["reason"], m["status"], m["reason"]))
            else:
                if (p["method"], p["path"], p["query"], list(p["version"])) != (m["method"], m["path"], m["query"], m["version"]):
                    return ("start-line", "message %d start line %r != %r" % (i, (p["method"], p["path"], p["query"], p["version"]), (m["method"], m["path"], m["query"], m["version"])))
            if not _hdr_equal(p["headers"], m["headers"]):
                return ("headers", "message %d headers %r != %r" % (i, dict(p["headers"].items()) if p["headers"] is not None else None, m["headers"]))
            if bytes(p["body"]) != m["body"]:
                return ("body", "message %d body %r != %r" % (i, bytes(p["body"]), m["body"]))
            if m["mode"] == "chunked":
                if not _hdr_equal(p["trails"] or {}, m["trailers"]):
                    return ("trailers", "message %d trailers %r != %r" % (i, p["trails"], m["trailers"]))
                want = dict((bytes(k), v) for k, v in m["parms"])
                gotp = dict((bytes(k), (bytes(v) if v is not None else None)) for k, v in (p["parms"] or {}).items())
                if gotp != want:
                    return ("chunk-ext", "message %d chunk extensions %r != %r" % (i, gotp, want))
        if res.get("leftover"):
            return ("leftover", "unconsumed bytes remain after the last message: %r" % (res["leftover"],))
        return None

    def _response(self, plan, pieces, tr):
        from ioflo.aio.http import clienting
        from ioflo.base.storing import Store
        msgs = plan["msgs"]
        with http_world(cap=1 << 20) as net:
            lst = SimSocket(net, "peer")
            lst.bind(("0.0.0.0", HPORT))
            lst.listen(5)
            store = Store(stamp=0.0)
            pat = clienting.Patron(store=store, hostname="127.0.0.1", port=HPORT, bufsize=plan["bs"], redirectable=False)
            pat.open()
            srv = None
            try:
                for i in range(6):
                    pat.serviceAll()
                    net.deliver_all()
                    if srv is None:
                        try:
                            srv, ca = lst.accept()
                        except OSError:
                            pass
                if srv is None or not pat.connector.connected:
                    raise RuntimeError("harness: patron did not connect")
                for i in range(len(msgs)):
                    pat.request(method="GET", path="/r%d" % i)
                pat.serviceAll()
                net.deliver_all()
                got = bytearray()

                def srv_read():
                    try:
                        got.extend(srv.recv(1 << 16))
                    except OSError:
                        pass

                for piece in pieces:
                    srv.send(piece)
                    net.deliver_all()
                    for k in range(plan["svc"]):
                        pat.serviceAll()
                        net.deliver_all()
                    srv_read()
                for k in range(6):
                    pat.serviceAll()
                    net.deliver_all()
                    srv_read()
                    if msgs[-1]["mode"] == "close" and not srv.closed and got.count(b"\r\n\r\n") >= len(msgs):
                        srv.close()   # the server ends a read-until-close body only after it has seen the request for it
                        net.deliver_all()
                for k in range(4):
                    pat.serviceAll()
                    net.deliver_all()
            except RuntimeError:
                raise
            except Exception as ex:
                import traceback
                return {"exception": (type(ex).__name__, "%r\n%s" % (ex, traceback.format_exc()[-600:]))}
            parsed = []
            for r in pat.responses:
                parsed.append({"status": r["status"], "reason": r["reason"], "headers": r["headers"], "body": r["body"],
                               "errored": r["errored"], "error": r["error"], "trails": None, "parms": None})
            # trailers / chunk extensions live on the respondent (last parsed message)
            if parsed and msgs[len(parsed) - 1]["mode"] == "chunked":
                parsed[-1]["trails"] = pat.respondent.trails
                parsed[-1]["parms"] = pat.respondent.parms
            for i, p in enumerate(parsed[:-1]):
                if msgs[i]["mode"] == "chunked":   # not retained for earlier messages: do not judge them
                    p["trails"] = dict(msgs[i]["trailers"])
                    p["parms"] = dict((bytes(k), v) for k, v in msgs[i]["parms"])
            return {"parsed": parsed, "leftover": bytes(pat.connector.rxbs)}

    def _request(self, plan, pieces, tr):
        from ioflo.aio.http import serving
        from ioflo.base.storing import Store
        msgs = plan["msgs"]
        seen = []
        with http_world(cap=1 << 20) as net:
            store = Store(stamp=0.0)
            holder = {}

            def app(environ, start):
                rq = holder["valet"].reqs.values()[0]
                seen.append({"method": rq.method, "path": rq.path, "query": rq.query, "version": rq.version,
                             "headers": rq.headers.copy() if rq.headers is not None else None, "body": bytes(rq.body),
                             "trails": rq.trails, "parms": rq.parms, "errored": rq.errored, "error": rq.error,
                             "environ_method": environ.get("REQUEST_METHOD")})
                start("200 OK", [("Content-Length", "2")])
                return [b"ok"]

            valet = serving.Valet(store=store, app=app, ha=("", HPORT), bufsize=plan["bs"], timeout=0.0)
            holder["valet"] = valet
            if not valet.open():
                raise RuntimeError("harness: valet did not open")
            raw = SimSocket(net, "peer")
            try:
                for i in range(4):
                    raw.connect_ex(("127.0.0.1", HPORT))
                    net.deliver_all()
                    valet.serviceAll()
                for piece in pieces:
                    raw.send(piece)
                    net.deliver_all()
                    for k in range(plan["svc"]):
                        valet.serviceAll()
                        net.deliver_all()
                    try:
                        raw.recv(1 << 16)
                    except OSError:
                        pass
                for k in range(4):
                    valet.serviceAll()
                    net.deliver_all()
            except Exception as ex:
                import traceback
                return {"exception": (type(ex).__name__, "%r\n%s" % (ex, traceback.format_exc()[-600:]))}
            left = b""
            if valet.servant.ixes:
                left = bytes(valet.servant.ixes.values()[0].rxbs)
            return {"parsed": seen, "leftover": left}


CHECK = C29()
