"""C06 — frame enter and exit actions are properly bracketed and ordered."""
from checks.flocommon import FloCheck
from checks.floinv import check_bracketing
from flosim.gen import cfg_with


class C06(FloCheck):
    pid = "C06"
    design_ref = "§6 C06"
    directed_files = ("flo-start-of-readied-framer-whose-aux-was-taken",)
    cfg = cfg_with(p_susp_sibling=0.3, depth=4, p_go_early=0.6, p_go_me_parent=0.2, nframes=(3, 7), p_child=0.8, p_under=0.25, p_ctx_extra=0.8, naux=(0, 2), p_caux=0.45, p_aux=0.15, p_bid=0.25, p_go=0.85)
    rule = ("generated programs with recorder actions in the enter, exit, re-enter and re-exit contexts of every frame, biased to "
            "transitions to self, ancestors, descendants and other subtrees and to transitions / stops while a conditional aux "
            "suspends lower frames; from the recorder trace alone: enter / exit alternate per frame, at every run boundary the "
            "frames entered but not exited equal the full outline (AST) of the framer's active frame incl. suspended frames, and "
            "within each run the order is exits bottom-up from the first outline difference, re-exits bottom-up, re-enters "
            "top-down, enters top-down; plus the reference interpreter; non-trivial = a transition with a non-empty shared "
            "ancestor part happened; distinct = digest of per-run (status, active outline)")
    assumptions = ["the entered set is the full outline, including frames suspended under a conditional auxiliary (the statement's own wording)"]
    required_probes = ["shared-ancestors", "forced-reentry", "stop-while-suspended", "rexit-renter", "rexit-of-suspended-ancestor"]

    def relevant(self, kind):
        return kind in ("action-sequence", "event-kind", "length")

    def invariants(self, plan, res, impl, out):
        check_bracketing(plan, impl, out)

    def probes(self, plan, res, impl, out):
        # a re-exit action of a frame that was suspended (below the cut) when the transition happened
        cut = {}
        for e in impl:
            if e[1] == "sent" and e[5]:
                cut[e[2]] = list(e[5][1])
            elif e[1] == "rec" and e[5] == "rexit" and e[3] in cut and cut[e[3]] and e[4] not in cut[e[3]]:
                out.probe("rexit-of-suspended-ancestor")
        last = {}
        for e in impl:
            if e[1] == "rec" and e[5] in ("rexit", "renter"):
                out.probe("rexit-renter")
                out.probe("shared-ancestors")
                out.nontrivial = True
            if e[1] == "sent" and e[5]:
                prev = last.get(e[2])
                if prev and prev[0] and e[5][0] == prev[0] and e[5][3] == 0 and prev[3] > 0 and e[4] == 2:
                    out.probe("forced-reentry")
                if prev and prev[0] and len(prev[1]) and e[4] in (0, 3) and prev[1][-1] != prev[0] and prev[0] not in prev[1][-1:]:
                    pass
                if prev and prev[0] and e[4] in (0, 3):
                    from checks.flocommon import outline_of
                    fr = [f for f in plan["program"]["framers"] if f["name"] == e[2]][0]
                    if len(prev[1]) < len(outline_of(fr, prev[0])):
                        out.probe("stop-while-suspended")
                last[e[2]] = e[5]


CHECK = C06()
