"""Shared base of the flosim checks: generate a program, co-simulate implementation and
reference model, apply the property's own trace invariants, classify disagreements."""
import hashlib
from fractions import Fraction

from simkit.core import Outcome, Trace
from simkit.driver import Check
from flosim.gen import gen_program, cfg_with, DEFAULT
from flosim.cosim import run_both, norm_impl, norm_model, first_difference, same_event
from flosim.lang import emit

COMPONENTS = {"real": ["ioflo.base.building.Builder (script -> house)", "ioflo.base.housing.House.resolve", "ioflo.base.skedding.Skedder.run (simulated time)",
                       "ioflo.base.framing Framer/Frame", "ioflo.base.acting Act/Transiter/Suspender/markers", "ioflo.base.needing", "ioflo.base.poking / wanting / fiating / completing",
                       "ioflo.base.storing.Store"],
              "stub": ["script file served from memory (building.open)", "Rec / Env actions (registered with doify)", "probe around tasker.runner"]}


def outline_of(prog_framer, name):
    frames = dict((f["name"], f) for f in prog_framer["frames"])
    kids = {}
    for f in prog_framer["frames"]:       # attach order: see flosim.model (a frame resolves every open link on its way up)
        cur = f
        while cur.get("over"):
            lst = kids.setdefault(cur["over"], [])
            if cur["name"] not in lst:
                lst.append(cur["name"])
            cur = frames[cur["over"]]
    for f in prog_framer["frames"]:
        if f.get("under") and f["under"] in kids.get(f["name"], []):
            kids[f["name"]].remove(f["under"])
            kids[f["name"]].insert(0, f["under"])
    up = []
    n = name
    while n:
        up.append(n)
        n = frames[n].get("over")
    up.reverse()
    n = name
    while kids.get(n):
        n = kids[n][0]
        up.append(n)
    return up


def classify(impl, model, d):
    """A short, stable description of the first disagreement."""
    a = impl[d] if d < len(impl) else None
    b = model[d] if d < len(model) else None
    if a is None or b is None:
        return "length", "one trace ends early: impl %r model %r" % (a, b)
    if a[1] == "rec" and b[1] == "rec":
        return "action-sequence", "impl ran %s (%s of %s), model %s (%s of %s)" % (a[2], a[5], a[4], b[2], b[5], b[4])
    if a[1] == "sent" and b[1] == "sent" and a[2:4] == b[2:4]:
        if a[4] != b[4]:
            return "status", "framer %s control %s: status impl %s model %s" % (a[2], a[3], a[4], b[4])
        sa, sb = a[5], b[5]
        if sa and sb:
            if sa[0] != sb[0] or tuple(sa[1]) != tuple(sb[1]):
                return "active-outline", "framer %s: active impl %r %r model %r %r" % (a[2], sa[0], sa[1], sb[0], tuple(sb[1]))
            if abs(float(sa[2]) - float(sb[2])) >= 1e-9:
                return "elapsed", "framer %s: elapsed impl %r model %r" % (a[2], sa[2], float(sb[2]))
            if sa[3] != sb[3]:
                return "recurred", "framer %s: recurred impl %r model %r" % (a[2], sa[3], sb[3])
            if bool(sa[4]) != bool(sb[4]):
                return "done-flag", "framer %s: done impl %r model %r" % (a[2], sa[4], sb[4])
    if a[1] == "send" and b[1] == "send":
        if a[2] != b[2]:
            return "schedule", "impl ran %s, model %s" % (a[2], b[2])
        return "control", "framer %s received control impl %s model %s" % (a[2], a[3], b[3])
    return "event-kind", "impl %r model %r" % (a[1:4], b[1:4])


class FloCheck(Check):
    engine = "flosim"
    level = "exploration"
    components = COMPONENTS
    cfg = DEFAULT
    quick_runs = 3000
    thorough_runs = 150000
    shrink_fields = []
    shrink_budget = (6000, 90.0)
    feature_probes = ()
    project = None      # optional: event -> bool, the events this property is about (see execute)

    directed_files = ()   # names (without .json) of plans under checks/directed/: regression shapes found by soak runs

    def directed(self):
        import json
        import os
        from simkit.core import uncanon
        d = os.path.join(os.path.dirname(os.path.abspath(__file__)), "directed")
        return [uncanon(json.load(open(os.path.join(d, n + ".json")))) for n in self.directed_files]

    swarm = True          # thorough tier: every second run uses a swarm variation of the check's configuration

    def generate(self, S, index, tier):
        if tier == "thorough" and self.swarm and index % 2 == 1:
            from flosim.gen import swarm_cfg
            return gen_program(S.gen, swarm_cfg(S.gen, self.cfg))
        return gen_program(S.gen, self.cfg)

    def simplify(self, plan):
        """Smaller programs: drop a framer, a frame, an action, the environment table, trailing ticks."""
        import copy
        prog = plan["program"]
        if plan.get("env"):
            c = copy.deepcopy(plan)
            c["env"] = {}
            yield c
        for i, fr in enumerate(prog["framers"]):
            if fr["name"] in ("zclk",):
                continue
            c = copy.deepcopy(plan)
            del c["program"]["framers"][i]
            yield c
        for i, fr in enumerate(prog["framers"]):
            if fr["name"] == "zclk":
                continue
            for j in range(len(fr["frames"]) - 1, -1, -1):
                if len(fr["frames"]) > 1:
                    c = copy.deepcopy(plan)
                    del c["program"]["framers"][i]["frames"][j]
                    yield c
        for i, fr in enumerate(prog["framers"]):
            if fr["name"] == "zclk":
                continue
            for j, f in enumerate(fr["frames"]):
                for k in range(len(f["acts"]) - 1, -1, -1):
                    c = copy.deepcopy(plan)
                    del c["program"]["framers"][i]["frames"][j]["acts"][k]
                    yield c
        for i, fr in enumerate(prog["framers"]):
            if fr["name"] == "zclk" and fr["frames"][0]["acts"][0].get("n", 0) > 2:
                c = copy.deepcopy(plan)
                c["program"]["framers"][i]["frames"][0]["acts"][0]["n"] //= 2
                yield c

    # hooks -------------------------------------------------------------------------
    def invariants(self, plan, res, impl, out):
        """Property-specific checks on the implementation's trace alone."""

    def probes(self, plan, res, impl, out):
        pass

    def relevant(self, kind):
        """Which co-simulation disagreement kinds this property owns (others are reported by C07)."""
        return True

    def execute(self, plan):
        out = Outcome()
        tr = Trace(keep=False)
        script, res, model, merr = run_both(plan)
        if merr:
            raise RuntimeError("harness: reference model crashed\n%s\n%s" % (merr, script))
        if not res.built or (res.exc is not None and res.exc[0] == "build"):
            why = (type(res.exc[1]).__name__ + ": " + str(res.exc[1]).splitlines()[0][:80]) if res.exc else "; ".join(getattr(res, "build_errors", []))[:120]
            import re
            why = re.sub(r"[0-9]+", "N", why)
            out.violate("rejected", "well-formed program rejected by the builder: %s" % why, "built=%s exc=%r errors=%r\n%s" % (res.built, res.exc, getattr(res, "build_errors", None), script[:3000]))
            out.digest = tr.digest()
            return out
        P = Fraction(plan["P"])
        impl = norm_impl(res.trace, P)
        if res.exc is not None:
            out.violate("exception", "run raised %s" % type(res.exc[1]).__name__, "%r\n%s" % (res.exc[1], script[:3000]))
        else:
            mod = norm_model(model.trace, P)
            d = first_difference(impl, mod)
            if d is not None:
                kind, what = classify(impl, mod, d)
                if self.relevant(kind):
                    ctx = "\n".join("  I %r\n  M %r" % (impl[i] if i < len(impl) else None, mod[i] if i < len(mod) else None) for i in range(max(0, d - 3), d + 2))
                    out.violate("model-" + kind, "implementation and reference interpreter disagree: " + kind,
                                "tick %s: %s\n%s\n%s" % (impl[d][0] if d < len(impl) else "?", what, ctx, script[:3500]))
                else:
                    out.probe("disagreement-owned-by-other-property")
                    if self.project is not None:
                        # the first disagreement belongs to another property: keep looking, on this property's own events only
                        pi, pm = [e for e in impl if self.project(e)], [e for e in mod if self.project(e)]
                        d2 = first_difference(pi, pm)
                        if d2 is not None:
                            kind2, what2 = classify(pi, pm, d2)
                            if self.relevant(kind2):
                                ctx = "\n".join("  I %r\n  M %r" % (pi[i] if i < len(pi) else None, pm[i] if i < len(pm) else None) for i in range(max(0, d2 - 3), d2 + 2))
                                out.violate("model-" + kind2, "implementation and reference interpreter disagree: " + kind2,
                                            "tick %s: %s (on the projection to this property's events; first overall disagreement: %s %s)\n%s\n%s"
                                            % (pi[d2][0] if d2 < len(pi) else "?", what2, kind, what, ctx, script[:3500]))
            if d is None and not out.violations and self.relevant("store"):
                # same events: the stores must hold the same values at the end (a wrong value that no need happened to read)
                for path, ms in sorted(model.shares.items()):
                    if not path.startswith(".sim."):
                        continue
                    sh = res.house.store.fetchShare(path)
                    got = dict(sh.items()) if sh is not None else None
                    want = dict(ms["fields"])
                    if got is None:
                        if want:
                            out.violate("model-store", "implementation and reference interpreter disagree: final store values", "share %s missing, reference %r\n%s" % (path, want, script[:3500]))
                            break
                        continue
                    keys = set(want) | set(k for k in got if k in want or got[k] is not None)
                    if any(got.get(k) != want.get(k) for k in keys):
                        out.violate("model-store", "implementation and reference interpreter disagree: final store values",
                                    "share %s: implementation %r, reference %r\n%s" % (path, got, want, script[:3500]))
                        break
                else:
                    out.probe("final-store-agrees")
            self.invariants(plan, res, impl, out)
        self.probes(plan, res, impl, out)
        for e in impl:
            tr.add(*e)
        out.digest = tr.digest()
        abstract = [(e[0], e[2], e[4], e[5][0] if e[5] else None, tuple(e[5][1]) if e[5] else None) for e in impl if e[1] == "sent"]
        out.state_digest = hashlib.sha256(repr(abstract).encode()).hexdigest()[:16]
        out.steps = impl[-1][0] if impl else 0
        out.sim_time = float(out.steps * P)
        return out
