"""C36 — stream stacks deliver every queued packet to the peer intact.

Real: TcpServerStack <-> 1-2 TcpClientStack over Server/Incomer <-> Client.  Simulated:
sockets with tiny pipes (partial sends, would-block), byte-wise delivery, the interleaving
of the stacks' service calls.  Stub: packets are pre-packed byte strings (FakePkt) on the
send side; the receive side is the stacks' own base Packet parser.
"""
import hashlib

from simkit.core import Outcome, Trace
from simkit.driver import Check
from netharn.world import world
from checks.c25 import FakePkt

SPORT = 7200


class C36(Check):
    pid = "C36"
    level = "exploration"
    engine = "netsim.tcp"
    design_ref = "§6 C36"
    rule = ("a TcpServerStack and 1-2 TcpClientStacks exchanging 0-6 uniquely tagged packets of 1-40 bytes per direction and "
            "peer, pipe capacity 1-64 bytes, a seeded schedule of client-service / server-service / queue / partial-delivery "
            "steps, then a fair tail; now and then a zero-length packet, the same packet queued twice or broadcast, a peer leaving, an orderly close after the last packet; non-trivial = a partial send happened or packets flowed both ways; distinct = digest "
            "of per-step (bytes received per endpoint)")
    components = {"real": ["ioflo.aio.proto.stacking.TcpServerStack", "ioflo.aio.proto.stacking.TcpClientStack", "ioflo.aio.proto.packeting.Packet (receive side)",
                           "ioflo.aio.tcp Server/Incomer/Client"],
                  "stub": ["socket module", "send-side packets (pre-packed bytes)"]}
    assumptions = ["no connection loss is injected while packets are queued (C25/C27 cover it): the property speaks of a connected peer; the only close is the orderly one of the epilogue, after the sender's last byte has left"]
    required_probes = ["partial-send", "both-directions", "two-clients", "completed", "sender-closed-after-last-packet", "broadcast", "same-packet-queued-again", "peer-left", "empty-packet"]
    quick_runs = 8000
    thorough_runs = 400000
    shrink_fields = ["schedule", "ops"]

    def directed(self):
        ops = [["c2s", 0, 30], ["s2c", 0, 25], ["c2s", 1, 9], ["s2c", 1, 40], ["s2c", 0, 3], ["c2s", 0, 1]]
        return [{"nclients": 2, "cap": 7, "ops": ops, "schedule": [["q"], ["c", 0], ["s"], ["d", 0, 3], ["q"], ["c", 1], ["d", 1, 2], ["s"], ["q"]] * 3}]

    def generate(self, S, index, tier):
        g = S.gen
        nc = g.choice([1, 1, 2])
        ops = [[g.choice(["c2s", "s2c"]), g.randrange(nc), g.choice([1, 2, 7, g.randint(1, 40)])] for _ in range(g.randint(1, 8))]
        # the same packet object queued more than once: broadcast to every connection, or queued again for the same peer
        ops = [(["bcast", 0, o[2]] if o[0] == "s2c" and g.random() < 0.15 else (o + ["again"] if g.random() < 0.15 else o)) for o in ops]
        s = S.sched
        sched = []
        for _ in range(s.randint(0, 60)):
            r = s.random()
            if r < 0.25:
                sched.append(["c", s.randrange(nc)])
            elif r < 0.5:
                sched.append(["s"])
            elif r < 0.65:
                sched.append(["q"])
            else:
                sched.append(["d", s.randrange(2 * nc), s.choice([1, 2, 5, 1 << 20])])
        # a zero-length packet somewhere in the queue (decided by a side generator so that all other plans stay as they were):
        # it puts nothing on the wire and must not hold up what is queued behind it
        import random as _r
        sg = _r.Random(hashlib.sha256(repr(g.getstate()).encode()).hexdigest())
        if sg.random() < 0.2:
            ops.insert(sg.randrange(len(ops)), [sg.choice(["c2s", "s2c"]), sg.randrange(nc), 0])
        # epilogue: one more packet, then the sender's end of the connection is closed before the receiver is serviced again,
        # so that the receiver reads the last bytes and the end of stream in one service pass (received bytes must still be delivered)
        return {"nclients": nc, "cap": g.choice([1, 3, 8, 64]), "ops": ops, "schedule": sched,
                # one of two clients leaves in the middle; packets the server still queues for it must not hold up the other peer
                "leave": [g.randrange(nc), g.randint(0, 20)] if nc == 2 and g.random() < 0.25 else None,
                "closing": g.choice([None, None, ["s2c", g.randrange(nc), g.choice([1, 5, 30])], ["c2s", g.randrange(nc), g.choice([1, 5, 30])]])}

    def execute(self, plan):
        from ioflo.aio.proto import stacking
        out = Outcome()
        tr = Trace(keep=False)
        abstract = hashlib.sha256()
        nc = plan["nclients"]
        if nc == 2:
            out.probe("two-clients")
        if any(o[0] == "c2s" for o in plan["ops"]) and any(o[0] in ("s2c", "bcast") for o in plan["ops"]):
            out.probe("both-directions")
        with world(out=out, cap=plan["cap"]) as net:
            rec_s = []           # (ca, packed) in the order the server stack delivered received packets
            rec_c = [[] for _ in range(nc)]

            class Srv(stacking.TcpServerStack):      # messagize is the documented override point
                def messagize(self, pkt, ha):
                    rec_s.append((ha, bytes(pkt.packed)))
                    return (None, None)

            def make_client(k):
                class Cl(stacking.TcpClientStack):
                    def messagize(self, pkt):
                        rec_c[k].append(bytes(pkt.packed))
                        return None
                return Cl(ha=("127.0.0.1", SPORT), bufsize=16)

            try:
                srv = Srv(ha=("", SPORT), bufsize=16)
                clients = [make_client(k) for k in range(nc)]
            except Exception as ex:
                out.violate("exception", "stack construction raised %s" % type(ex).__name__, repr(ex))
                out.digest = tr.digest()
                return out

            gone = set()

            def guarded(name, fn):
                try:
                    fn()
                    return True
                except ValueError as ex:
                    if gone and name.startswith("TcpServerStack"):
                        out.probe("send-to-departed-peer-raised")      # no connection for that address any more: raising is the library's answer
                        return True
                    import traceback
                    out.violate("exception", "%s raised %s" % (name, type(ex).__name__), "%r\n%s" % (ex, traceback.format_exc()[-600:]))
                    return False
                except Exception as ex:
                    import traceback
                    out.violate("exception", "%s raised %s" % (name, type(ex).__name__), "%r\n%s" % (ex, traceback.format_exc()[-600:]))
                    return False

            ok = True
            for i in range(8):
                for c in clients:
                    ok = ok and guarded("TcpClientStack.serviceAll", c.serviceAll)
                net.deliver_all()
                ok = ok and guarded("TcpServerStack.serviceAll", srv.serviceAll)
                net.deliver_all()
                if not ok:
                    break
            if ok and not (all(c.handler.connected for c in clients) and len(srv.handler.ixes) == nc):
                raise RuntimeError("harness: stacks did not connect")
            if ok:
                cas = [c.handler.ca for c in clients]
                sent_c2s = [bytearray() for _ in range(nc)]
                sent_s2c = [bytearray() for _ in range(nc)]
                ops = list(plan["ops"])
                serial = [0]

                def queue_next():
                    if not ops:
                        return
                    op = ops.pop(0)
                    kind, k, n = op[0], op[1], op[2]
                    k = k % nc
                    if k in gone and kind != "bcast":
                        return          # nothing more is exchanged with a peer that left
                    payload = (b"<%d|" % serial[0] + bytes((serial[0] * 31 + j) % 251 for j in range(n)))[:max(n, 4)]
                    if n == 0:
                        payload = b""
                        out.probe("empty-packet")
                    serial[0] += 1
                    pkt = FakePkt(bytearray(payload))       # real packets keep their packed form in a bytearray
                    times = 2 if len(op) > 3 else 1         # "again": the same packet object queued twice for the same peer
                    if times == 2:
                        out.probe("same-packet-queued-again")
                    for _ in range(times):
                        if kind == "c2s":
                            clients[k].transmit(pkt)
                            sent_c2s[k].extend(payload)
                        elif kind == "bcast":
                            out.probe("broadcast")
                            for kk in range(nc):
                                if kk in gone:
                                    continue
                                srv.transmit(pkt, cas[kk])
                                sent_s2c[kk].extend(payload)
                        else:
                            srv.transmit(pkt, cas[k])
                            sent_s2c[k].extend(payload)

                def received():
                    r_s = [b"".join(p for ca, p in rec_s if ca == cas[k]) + b"".join(bytes(p.packed) for p, ca in srv.rxPkts if ca == cas[k]) for k in range(nc)]
                    r_c = [b"".join(rec_c[k]) + b"".join(bytes(p.packed) for p in clients[k].rxPkts) for k in range(nc)]
                    return r_s, r_c

                def check(final=False):
                    r_s, r_c = received()
                    for k in range(nc):
                        if k in gone:
                            continue
                        for name, got, want in (("server from client %d" % k, r_s[k], bytes(sent_c2s[k])), ("client %d from server" % k, r_c[k], bytes(sent_s2c[k]))):
                            if got != want[:len(got)]:
                                out.violate("corrupt", "received packets are not a prefix of what was queued", "%s: got %r queued %r" % (name, got, want))
                                return False
                            if final and got != want:
                                out.violate("lost", "queued packets did not all arrive", "%s: got %r queued %r" % (name, got, want))
                                return False
                    abstract.update(repr([len(x) for x in r_s + r_c]).encode())
                    return True

                def step(st):
                    code = st[0]
                    if code == "c":
                        if st[1] % nc in gone:
                            return True
                        return guarded("TcpClientStack.serviceAll", clients[st[1] % nc].serviceAll)
                    if code == "s":
                        return guarded("TcpServerStack.serviceAll", srv.serviceAll)
                    if code == "q":
                        queue_next()
                        return True
                    socks = []
                    for c in clients:
                        socks.append(c.handler.cs)
                    for ca in cas:
                        ix = srv.handler.ixes.get(ca)
                        socks.append(ix.cs if ix is not None else None)
                    w = socks[st[1] % len(socks)]
                    if w is not None and w.txpipe is not None:
                        w.txpipe.deliver(st[2])
                    return True

                lv = plan.get("leave")
                for si, st in enumerate(plan["schedule"]):
                    tr.add("st", st)
                    if lv and si == lv[1] and not gone:
                        k = lv[0] % nc
                        gone.add(k)
                        out.probe("peer-left")
                        clients[k].handler.cs.close()
                        net.deliver_all()
                        for _ in range(3):      # the server notices the departure and drops the connection
                            if not guarded("TcpServerStack.serviceAll", srv.serviceAll):
                                ok = False
                            net.deliver_all()
                        # the application does not know yet: it queues one more packet for the peer that left, then goes on with the other
                        srv.transmit(FakePkt(bytearray(b"<for-the-departed>")), cas[k])
                    if not ok or not (step(st) and check()):
                        ok = False
                        break
                    out.steps += 1
                rounds = 0
                while ok and rounds < 400:
                    rounds += 1
                    queue_next()
                    before = received()
                    for st in [["c", k] for k in range(nc)] + [["d", j, 1 << 20] for j in range(2 * nc)] + [["s"]] + [["d", j, 1 << 20] for j in range(2 * nc)]:
                        if not (step(st) and check()):
                            ok = False
                            break
                    r_s, r_c = received()
                    if ok and not ops and all(r_s[k] == bytes(sent_c2s[k]) and r_c[k] == bytes(sent_s2c[k]) for k in range(nc) if k not in gone):
                        break
                if ok and check(final=True):
                    out.probe("completed")
                cl = plan.get("closing")
                if ok and cl and not out.violations and (cl[1] % nc) not in gone:
                    kind, k, n = cl[0], cl[1] % nc, cl[2]
                    payload = (b"<Z|" + bytes((7 * j) % 251 for j in range(n)))[:max(n, 4)]
                    big = 1 << 20
                    if kind == "s2c":
                        srv.transmit(FakePkt(payload), cas[k])
                        sent_s2c[k].extend(payload)
                        ix = srv.handler.ixes.get(cas[k])
                        for _ in range(200):
                            if not guarded("TcpServerStack.serviceAll", srv.serviceAll):
                                ok = False
                                break
                            if ix is None or not ix.txes:
                                break
                            if ix.cs.txpipe is not None:
                                ix.cs.txpipe.deliver(big)
                            guarded("TcpClientStack.serviceAll", clients[k].serviceAll)     # keep draining so the sender can finish
                        if ok and ix is not None and ix.cs is not None:
                            ix.cs.close()       # the server process ends: FIN follows the data
                            out.probe("sender-closed-after-last-packet")
                    else:
                        clients[k].transmit(FakePkt(payload))
                        sent_c2s[k].extend(payload)
                        h = clients[k].handler
                        for _ in range(200):
                            if not guarded("TcpClientStack.serviceAll", clients[k].serviceAll):
                                ok = False
                                break
                            if not h.txes and not clients[k].txbs and not clients[k].txPkts:
                                break
                            if h.cs.txpipe is not None:
                                h.cs.txpipe.deliver(big)
                            guarded("TcpServerStack.serviceAll", srv.serviceAll)
                        if ok and h.cs is not None:
                            h.cs.close()
                            out.probe("sender-closed-after-last-packet")
                    if ok:
                        net.deliver_all()
                        for _ in range(6):
                            if kind == "s2c":
                                try:
                                    clients[k].serviceAll()
                                except OSError:
                                    break       # the closed connection may legitimately surface as a propagated error later (C25)
                            else:
                                try:
                                    srv.serviceAll()
                                except OSError:
                                    break
                            net.deliver_all()
                        r_s, r_c = received()
                        got, want = (r_c[k], bytes(sent_s2c[k])) if kind == "s2c" else (r_s[k], bytes(sent_c2s[k]))
                        if got != want:
                            out.violate("lost-at-close", "bytes received before the peer closed were not delivered in a packet",
                                        "%s peer %d: delivered %r, sent before the close %r" % (kind, k, got[-40:], want[-40:]))
                tr.add("final", [bytes(x) for x in sent_c2s], [bytes(x) for x in sent_s2c])
        out.digest = tr.digest()
        out.state_digest = abstract.hexdigest()[:16]
        out.nontrivial = bool(out.probes.get("partial-send")) or bool(out.probes.get("both-directions"))
        return out


CHECK = C36()
