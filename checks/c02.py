"""C02 — the scheduler runs each due tasker once per tick, on its period, in order.

Real: Builder, House, Skedder.run(real=False), Tasker/Framer runners, bid actions.
Harness: probe runners (record every send and its returned status), Rec actions.
Oracle: an exact-rational model of the schedule (tick n is at n*P with P and the periods
taken as the decimal literals of the script) predicts, tick by tick, which taskers are sent
to and in which order, and the final abort sweep; the observed send sequence must equal it.
"""
import hashlib
from fractions import Fraction

from simkit.core import Outcome, Trace
from simkit.driver import Check
from flosim.lang import emit
from flosim.harness import run_script

PERIODS = ["0.0625", "0.125", "0.1", "0.05", "0.2", "0.3", "0.25", "1.0"]
TPERIODS = ["0", "0.05", "0.1", "0.125", "0.15", "0.2", "0.25", "0.3", "0.35", "0.375", "0.5", "0.7", "1.0"]
RUNNING_OR_STARTED = (2, 3)  # resolved from ioflo at run time


def _side(g):
    """A side generator seeded by the main generator's state without drawing from it (keeps older programs unchanged)."""
    import random as _random
    return _random.Random(int(hashlib.sha256(repr(g.getstate()).encode()).hexdigest()[:16], 16))


def gen_program(g):
    slow = _side(g).random() < 0.2     # every tasker, the director included, has a period of at least two ticks: whole ticks pass
    P = g.choice(PERIODS)               # in which nothing is due (an implementation that skips idle ticks must land on the same ticks)
    nt = g.randint(1, 6)
    framers = []
    ticks = g.randint(4, 60)
    names = ["t%d" % i for i in range(nt)]
    tperiods = TPERIODS
    if slow:
        from flosim.gen import dec
        tperiods = sorted(set([p for p in TPERIODS if Fraction(p) >= 2 * Fraction(P)] + [dec(k * Fraction(P)) for k in (2, 2, 3, 4, 5)]))
    for i, nm in enumerate(names):
        p = g.choice(tperiods) if g.random() < 0.8 or slow else P
        frames = [{"name": nm + "s", "over": None, "acts": [{"k": "rec", "ctx": "recur", "tag": "run." + nm}]}]
        if g.random() < 0.2:   # self aborting / stopping tasker: a chain of frames ending in a bid on itself
            k = g.randint(1, 4)
            frames = []
            for j in range(k):
                frames.append({"name": "%sc%d" % (nm, j), "over": None, "acts": [{"k": "rec", "ctx": "recur", "tag": "run." + nm}, {"k": "go", "far": "next"}]})
            frames.append({"name": nm + "end", "over": None, "acts": [{"k": "rec", "ctx": "enter", "tag": "selfbid." + nm},
                                                                       {"k": "bid", "ctx": "enter", "control": g.choice(["abort", "stop"]), "who": ["me"]}]})
        framers.append({"name": nm, "sched": g.choice(["active", "active", "active", "inactive"]), "order": g.choice([None, "front", "mid", "back"]),
                        "period": float(p), "pdec": p, "first": frames[0]["name"], "frames": frames})
    # director: one frame per tick, bids at drawn ticks; stops everything at the end
    dframes = []
    bids = {}
    for _ in range(g.randint(0, 4)):
        bids.setdefault(g.randint(0, ticks - 1), []).append((g.choice(["start", "start", "run", "stop", "abort", "ready"]), g.choice(names), g.choice(tperiods + [None, None])))
    for n in range(ticks):
        acts = []
        for control, who, p in bids.get(n, []):
            per = p if control in ("start", "run", "ready") else None
            acts.append({"k": "rec", "ctx": "enter", "tag": "bid.%s.%s.%s" % (control, who, per)})
            acts.append({"k": "bid", "ctx": "enter", "control": control, "who": [who], "period": float(per) if per is not None else None})
        acts.append({"k": "go", "far": "next"})
        dframes.append({"name": "d%d" % n, "over": None, "acts": acts})
    dframes.append({"name": "dend", "over": None, "acts": [{"k": "bid", "ctx": "enter", "control": "stop", "who": ["all"]}]})
    director = {"name": "dir", "sched": "active", "order": g.choice(["front", "back", None]), "period": None, "pdec": "0", "first": "d0", "frames": dframes}
    if slow:
        from flosim.gen import dec
        k = _side(g).choice([2, 2, 3])
        director["pdec"] = dec(k * Fraction(P))
        director["period"] = float(director["pdec"])
        del dframes[max(2, len(dframes) // k):-1]      # the director advances one frame per run of its own: keep the run length comparable
    pos = g.randint(0, len(framers))
    framers.insert(pos, director)
    # the run starts at time t0 (the skedder's start stamp): every schedule is relative to it
    sd = _side(g)
    plan = {"P": P, "program": {"house": "h", "framers": framers}, "t0": sd.choice([0, 0, 0, 10, 2.5, 64, 1000])}
    # a second house in the same skedder with taskers of the same names and periods (names are unique per house only)
    if sd.random() < 0.15:
        plan["second"] = True
    return plan


class C02(Check):
    pid = "C02"
    level = "exploration"
    engine = "flosim"
    design_ref = "§6 C02"
    rule = ("generated houses of 1-6 framers (active / inactive, in front / mid / back, declaration order drawn) plus a director "
            "framer that issues start/run/ready bids with new periods and stop/abort bids at drawn ticks; tick period from "
            "{1/16, 1/8, 0.1, 0.05, 0.2, 0.3, 0.25, 1} and tasker periods from {0, < P, = P, multiples, non-multiples, decimal}; "
            "4-60 ticks; self-aborting and self-stopping taskers; non-trivial = some tasker period exceeds the tick period or a "
            "bid changed a period or a tasker aborted; variations: all periods >= 2 ticks, non-zero start stamps, a second house with taskers of the same names; distinct = digest of the send sequence")
    components = {"real": ["ioflo.base.building.Builder", "ioflo.base.skedding.Skedder.run", "ioflo.base.tasking / framing runners",
                           "ioflo.base.wanting (bids)", "Store time"],
                  "stub": ["script file (served from memory)", "Rec action, probe runner (harness)"]}
    assumptions = ["'tick time' is n*P in exact arithmetic from the decimal literals; a last-bit difference in a reported stamp is not a violation, "
                   "a run happening in a different tick is"]
    required_probes = ["period-multiple", "period-nonmultiple", "decimal-period", "period-bid", "aborted", "skipped-tick", "idle-tick", "nonzero-start-stamp", "two-houses-same-names"]
    quick_runs = 6000
    thorough_runs = 300000
    shrink_fields = []

    def directed(self):
        def simple(P, ps, ticks):
            framers = [{"name": "t%d" % i, "sched": "active", "order": None, "period": float(p), "pdec": p, "first": "t%ds" % i,
                        "frames": [{"name": "t%ds" % i, "over": None, "acts": [{"k": "rec", "ctx": "recur", "tag": "run.t%d" % i}]}]} for i, p in enumerate(ps)]
            dframes = [{"name": "d%d" % n, "over": None, "acts": [{"k": "go", "far": "next"}]} for n in range(ticks)]
            dframes.append({"name": "dend", "over": None, "acts": [{"k": "bid", "ctx": "enter", "control": "stop", "who": ["all"]}]})
            framers.append({"name": "dir", "sched": "active", "order": "back", "period": None, "pdec": "0", "first": "d0", "frames": dframes})
            return {"P": P, "program": {"house": "h", "framers": framers}}
        return [simple("0.1", ["0.2", "0.3", "0.7"], 40), simple("0.125", ["0.25", "0.375", "0"], 20), simple("0.05", ["0.15", "0.35"], 60)]

    def generate(self, S, index, tier):
        return gen_program(S.gen)

    def execute(self, plan):
        from ioflo.base.globaling import ABORTED, STARTED, RUNNING, ABORT
        out = Outcome()
        tr = Trace(keep=False)
        P = Fraction(plan["P"])
        prog = plan["program"]
        script = emit(prog)
        if plan.get("second"):
            import copy
            prog2 = copy.deepcopy(prog)
            prog2["house"] = "h2"
            script = script + "\n" + emit(prog2)
            out.probe("two-houses-same-names")
        t0 = float(plan.get("t0", 0))
        if t0:
            out.probe("nonzero-start-stamp")
        res = run_script(script, period=float(plan["P"]), stamp=t0)
        if not res.built or res.exc is not None:
            out.violate("build", "well-formed scheduling program rejected or run raised", "built=%s exc=%r\n%s" % (res.built, res.exc, script[:1500]))
            out.digest = tr.digest()
            return out
        # schedule order = fronts + mids + backs in declaration order
        order = []
        for sel in ("front", None, "back"):
            for fr in prog["framers"]:
                o = fr.get("order")
                o = None if o == "mid" else o
                if o == sel:
                    order.append(fr["name"])
        period = dict((fr["name"], Fraction(fr.get("pdec", "0"))) for fr in prog["framers"])
        if plan.get("second"):      # the skedder's ready list: the first house's taskers, then the second's
            order = order + ["h2." + n for n in order]
            period.update(dict(("h2." + n, p) for n, p in list(period.items())))
        for fr in prog["framers"]:
            pd = period[fr["name"]]
            if pd > P:
                out.probe("period-multiple" if (pd / P).denominator == 1 else "period-nonmultiple")
            if fr.get("pdec") in ("0.1", "0.15", "0.2", "0.3", "0.35", "0.7", "0.05"):
                out.probe("decimal-period")
        # walk the trace: model and observation side by side
        due = dict((n, Fraction(0)) for n in order)
        ready = list(order)
        status = dict((n, 0) for n in order)
        tick = 0
        events = [e for e in res.trace if e[2] in ("sent", "rec", "raised")]
        i = 0
        sends_seen = []
        ended = False
        violation = None

        def take_sends_until(tasker_name):
            """Consume events up to and including the 'sent' of tasker_name; apply period bids seen on the way."""
            nonlocal i
            pending = []
            while i < len(events):
                e = events[i]
                i += 1
                if e[2] == "rec" and e[3].startswith("bid."):
                    _b, control, who, per = e[3].split(".", 3)
                    if per != "None" and control in ("start", "run", "ready"):
                        pending.append((who, Fraction(per)))
                elif e[2] == "sent":
                    pre = "h2." if e[3].startswith("h2.") else ""      # a bid names a tasker of the bidder's own house
                    for who, per in pending:
                        period[pre + who] = per
                        out.probe("period-bid")
                    return e
            return None

        maxticks = 400
        while not ended and tick < maxticks:
            now = tick * P
            more = False
            idle = bool(ready)
            for name in list(ready):
                if due[name] > now:
                    if status[name] in (STARTED, RUNNING):
                        more = True
                    out.probe("skipped-tick")
                    continue
                idle = False
                e = take_sends_until(name)
                if e is None:
                    violation = ("missing-run", "tick %d (t=%s): %s is due (due %s, period %s) but the trace ends" % (tick, now, name, due[name], period[name]))
                    break
                got_tick = int(round((e[1] - t0) / float(P))) if P else 0
                if e[3] != name or got_tick != tick:
                    violation = ("wrong-run", "tick %d (t=%s): expected %s to run (due %s, period %s); observed %s at stamp %r (tick %d)"
                                 % (tick, now, name, due[name], period[name], e[3], e[1], got_tick))
                    break
                sends_seen.append((tick, name, e[4], e[5]))
                status[name] = e[5]
                if e[5] == ABORTED:
                    ready.remove(name)
                    out.probe("aborted")
                else:
                    due[name] = due[name] + period[name]
                    if e[5] in (STARTED, RUNNING):
                        more = True
            if violation:
                break
            if idle:
                out.probe("idle-tick")      # a whole tick in which no tasker was due
            if not ready or not more:
                ended = True
                break
            tick += 1
        if violation is None:
            # final sweep: one ABORT for every remaining tasker, then nothing.  The order in which the remaining taskers
            # are aborted is not fixed by any statement (C02 orders the runs within a tick, C03 asks for exactly one
            # abort each), so the sweep is compared as a set; the digest uses the sorted names.
            left = set(ready)
            swept = []
            while left:
                e = take_sends_until(None)
                if e is None or e[3] not in left or e[4] != ABORT:
                    violation = ("sweep", "final sweep: expected one ABORT to each of %s, observed %r" % (sorted(left), e))
                    break
                left.discard(e[3])
                swept.append(("sweep", e[3], e[4], e[5]))
            sends_seen.extend(sorted(swept))
            if violation is None:
                rest = [e for e in events[i:] if e[2] == "sent"]
                if rest:
                    violation = ("extra-run", "sends after the run should have ended: %r" % (rest[:3],))
        if violation:
            out.violate(violation[0], "schedule %s (P=%s)" % (violation[0], plan["P"]), violation[1] + "\n" + script[:1200])
        for e in sends_seen:
            tr.add(*e)
        out.digest = tr.digest()
        out.state_digest = hashlib.sha256(repr(sends_seen).encode()).hexdigest()[:16]
        out.sim_time = float(tick * P)
        out.steps = tick
        out.nontrivial = bool(out.probes.get("period-multiple") or out.probes.get("period-nonmultiple") or out.probes.get("period-bid") or out.probes.get("aborted"))
        return out


CHECK = C02()
