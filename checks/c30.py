"""C30 — HTTP requests and WSGI responses survive the round trip.

Real: Patron/Requester -> Client -> (simulated net) -> Server/Incomer -> Valet/Requestant ->
WSGI environ, and Responder -> ... -> Respondent -> Patron.responses.  What the simulator
adds to input generation: two real parties, a fragmenting network with tiny pipes, and
responses streamed over several service passes, all of which the result must not depend on.
"""
import hashlib
import json
from urllib.parse import parse_qsl

from simkit.core import Outcome, Trace
from simkit.driver import Check
from netharn.http import http_world, header_value
from netharn.duo import Duo, PlanApp

METHODS = ["GET", "HEAD", "PUT", "PATCH", "POST", "DELETE", "OPTIONS", "TRACE", "CONNECT"]
SEGS = ["café", "日本", "a b", "x%41", "ü-ñ", "plain", "semi;colon", "at@", "plus+", "q'uote", "tilde~", "co:lon", "amp&ersand", "eq=ual"]
VALS = ["", "1", "two words", "a&b", "a=b", "a+b", "100%", "#frag", "café", "x;y", "sl/ash", "?q", "日本", " lead", "trail ", "a\tb", "quo\"te", "%41"]
NAMES = ["a", "b2", "long_name", "x-y", "k.v", "T~", "UP"]
HNAMES = ["X-Alpha", "x-beta", "X-GAMMA", "Accept", "X-Req-Id", "If-None-Match", "X-Trace"]


def jvalue(g, depth=0):
    r = g.random()
    if depth > 2 or r < 0.5:
        return g.choice([None, True, False, 0, -7, 3.5, 1e10, "", "text", "café 日本", "q\"uote\\", "line\nbreak"])
    if r < 0.75:
        return [jvalue(g, depth + 1) for _ in range(g.randint(0, 3))]
    return dict((g.choice(["k", "key2", "ü", "a b"]) + str(i), jvalue(g, depth + 1)) for i in range(g.randint(0, 3)))


def gen_req(g, i):
    method = g.choice(METHODS)
    path = "/r%d/" % i + "/".join(g.choice(SEGS) for _ in range(g.randint(0, 3)))
    qargs = []
    for nm in g.sample(NAMES, g.randint(0, 3)):
        qargs.append([nm, g.choice(VALS)])
    headers = [[nm, header_value(g)] for nm in g.sample(HNAMES, g.randint(0, 3))]
    mode = "none" if method in ("GET", "HEAD") else g.choice(["none", "body", "body", "data", "fargs"])
    spec = {"method": method, "path": path, "qargs": qargs, "headers": headers, "mode": mode}
    if g.random() < 0.3:      # query arguments written into the path string itself, form-encoded ('+' for a space, %XX), as urlencode does
        spec["pathq"] = [[nm, g.choice(VALS + ["red shoes", "a+b", "50% off", "x y+z"])] for nm in g.sample(["pq1", "pq2", "pq3"], g.randint(1, 2))]
    if mode == "body":
        spec["body"] = bytes(g.randrange(256) for _ in range(g.choice([1, 2, 17, g.randint(1, 60)])))
    elif mode == "data":
        d = jvalue(g, 1)
        spec["data"] = d if isinstance(d, (dict, list)) else {"v": d}
    elif mode == "fargs":
        spec["fargs"] = [[nm, g.choice(VALS)] for nm in g.sample(NAMES, g.randint(1, 3))]
    return spec


def gen_resp(g, i, method):
    kind = g.choice(["fixed", "fixed", "stream", "empty", "nolen-empty", "error"])
    bodyless = g.random() < 0.15        # statuses that never carry a body, with and without a declared length
    if method == "HEAD" or bodyless:
        kind = g.choice(["empty", "nolen-empty"])
    shape = {"kind": kind, "status": g.choice(["204 No Content", "304 Not Modified"]) if bodyless and method != "HEAD" else
             g.choice(["200 OK", "201 Created", "202 Accepted", "404 Not Found", "418 I'm a teapot"]), "pieces": [], "gaps": [],
             "headers": [[nm, header_value(g)] for nm in g.sample(["X-Out", "Etag", "X-Served-By", "Cache-Control"], g.randint(0, 3))],
             "pregap": g.choice([0, 0, 2])}
    if kind in ("fixed", "stream"):
        n = g.randint(1, 4)
        shape["pieces"] = [bytes(g.randrange(256) for _ in range(g.randint(1, 20))) for _ in range(n)]
        shape["gaps"] = [g.choice([0, 0, 1, 2]) for _ in range(n)]
        if g.random() < 0.3:
            shape["headers"].append(["Content-Type", "application/octet-stream"])
    elif kind == "error":
        shape["status"] = g.choice(["400 Bad Request", "404 Not Found", "409 Conflict", "500 Internal Server Error", "700 Unknown"])
        shape["title"] = "T%d" % i
        shape["detail"] = g.choice(["", "went wrong", "détail"])
        # headers carried by the raised error itself (the ordinary response headers of the shape are not used for errors); a
        # content type in any spelling must win over the server's default, and the optional reason / fault travel too
        eh = [[nm, header_value(g)] for nm in g.sample(["Retry-After", "X-Err", "WWW-Authenticate", "x-lower"], g.randint(0, 2))]
        if g.random() < 0.5:
            eh.insert(g.randint(0, len(eh)), [g.choice(["Content-Type", "content-type", "CONTENT-TYPE", "Content-type"]), g.choice(["application/problem+text", "text/x-err; charset=utf-8"])])
        shape["eheaders"] = eh
        shape["reason"] = g.choice(["", "", "Custom Reason"])
        shape["fault"] = g.choice([None, None, 17])
    return shape


class C30(Check):
    pid = "C30"
    level = "exploration"
    engine = "netsim.http"
    design_ref = "§6 C30"
    rule = ("1-3 generated requests on one connection (all nine methods, unicode / reserved-character path segments, query "
            "names that are URL tokens with arbitrary string values, header values, binary bodies, JSON data, form args with "
            "arbitrary values) answered by generated WSGI responses (fixed, streamed in pieces with empty yields, empty, "
            "length-less empty, raised HTTPError with and without detail), over pipes of drawn capacity with a seeded "
            "schedule of service and partial-delivery steps; non-trivial = the request carries at least one of query, "
            "headers, body/data/form; a later request may omit its path (the client reuses the one it transmitted last; such plans issue requests one at a time); distinct = digest of (requests, responses)")
    components = {"real": ["ioflo.aio.http.clienting.Patron/Requester/Respondent", "ioflo.aio.http.serving.Valet/Requestant/Responder",
                           "ioflo.aio.http.httping", "ioflo.aio.tcp Client/Server/Incomer"],
                  "stub": ["socket module", "WSGI application (records environ, answers from the plan)"]}
    assumptions = ["inputs whose result the statement does not determine are not generated: GET/HEAD with a body, header values outside latin-1 "
                   "or with CR/LF or surrounding whitespace, multipart forms, a body for HEAD responses",
                   "server-side query / form arguments are read the way a WSGI application does: urllib.parse.parse_qsl(keep_blank_values=True)"]
    required_probes = ["fargs", "data", "body", "qargs", "error", "stream", "unicode-path", "partial-delivery", "bodyless-without-length-then-another", "error-header", "query-in-path", "environ-checked-against-earlier-request", "path-reused-from-earlier-request"]
    quick_runs = 8000
    thorough_runs = 400000
    shrink_fields = ["schedule", "reqs"]

    def directed(self):
        return [{"cap": 4096, "bs": 4096, "schedule": [],
                 "reqs": [{"method": "POST", "path": "/r0/café/a b", "qargs": [["a", "x&y=z"], ["b2", ""]], "headers": [["X-Alpha", "v"]], "mode": "fargs",
                           "fargs": [["a", "1&2"], ["b2", "x=y"], ["k.v", "p+q r"]]},
                          {"method": "PUT", "path": "/r1/", "qargs": [], "headers": [], "mode": "data", "data": {"k": [1, None, "ü"]}}],
                 "resps": [{"kind": "stream", "status": "200 OK", "pieces": [b"ab", b"\x00\xff"], "gaps": [1, 0], "headers": [["X-Out", "1"]], "pregap": 1},
                           {"kind": "error", "status": "409 Conflict", "pieces": [], "gaps": [], "headers": [], "pregap": 0, "title": "T1", "detail": "d"}]}]

    def generate(self, S, index, tier):
        g = S.gen
        n = g.choice([1, 1, 2, 3])
        reqs = [gen_req(g, i) for i in range(n)]
        resps = [gen_resp(g, i, reqs[i]["method"]) for i in range(n)]
        s = S.sched
        sched = []
        for _ in range(s.randint(0, 40)):
            r = s.random()
            sched.append(["c"] if r < 0.3 else ["s"] if r < 0.6 else ["d", s.randint(0, 1), s.choice([1, 3, 10, 1 << 20])])
        plan = {"cap": g.choice([8, 64, 4096]), "bs": g.choice([2, 64, 4096]), "schedule": sched, "reqs": reqs, "resps": resps}
        # a later request issued without a path: the client reuses the path of the request before it (side generator: all other
        # plans stay as they were)
        import random as _r
        sg = _r.Random(hashlib.sha256(repr(g.getstate()).encode()).hexdigest())
        for i in range(1, n):
            if sg.random() < 0.3 and (reqs[i]["method"] == "HEAD") == (reqs[i - 1]["method"] == "HEAD"):
                reqs[i]["samepath"] = True
        return plan

    def execute(self, plan):
        out = Outcome()
        tr = Trace(keep=False)
        reqs, resps = [dict(r) for r in plan["reqs"]], list(plan["resps"][:len(plan["reqs"])])
        n = len(reqs)
        if n:
            reqs[0].pop("samepath", None)
        for i in range(1, n):
            if reqs[i].get("samepath"):     # same path as the request before it, hence answered from the same shape
                reqs[i]["path"] = reqs[i - 1]["path"]
                reqs[i].pop("pathq", None)
                resps[i] = resps[i - 1]
                out.probe("path-reused-from-earlier-request")
        for r in reqs:
            if r["mode"] != "none":
                out.probe(r["mode"])
            if r["qargs"]:
                out.probe("qargs")
            if any(ord(c) > 127 for c in r["path"]):
                out.probe("unicode-path")
        for r in resps:
            if r["kind"] in ("error", "stream"):
                out.probe(r["kind"])
        for i, (rq, rs) in enumerate(zip(plan["reqs"], plan["resps"])):
            if rs["kind"] == "nolen-empty" and (rq["method"] == "HEAD" or rs["status"][:3] in ("204", "304")) and i + 1 < len(plan["reqs"]):
                out.probe("bodyless-without-length-then-another")
        app = PlanApp(resps)
        with http_world(cap=plan["cap"]) as net:
            duo = Duo(net, app, bs_c=plan["bs"], bs_s=plan["bs"])
            if not duo.connect():
                raise RuntimeError("harness: duo did not connect")
            pat, valet = duo.patron, duo.valet
            # with a path-less request in the plan the requests are issued one at a time, each after the response to the one
            # before it (the client takes an omitted path from the request it transmitted last)
            lazy = any(r.get("samepath") for r in reqs)
            pending = list(reqs[1:]) if lazy else []
            try:
                for r in (reqs[:1] if lazy else reqs):
                    self._issue(pat, r, out)
            except Exception as ex:
                out.violate("exception", "Patron.request raised %s" % type(ex).__name__, repr(ex))

            def step(st):
                try:
                    if st[0] == "c":
                        pat.serviceAll()
                    elif st[0] == "s":
                        valet.serviceAll()
                    else:
                        w = duo.client_sock() if st[1] == 0 else duo.server_sock()
                        if w is not None and w.txpipe is not None:
                            if w.txpipe.nflight > st[2]:
                                out.probe("partial-delivery")
                            w.txpipe.deliver(st[2])
                except Exception as ex:
                    import traceback
                    out.violate("exception", "%s raised %s" % ({"c": "Patron.serviceAll", "s": "Valet.serviceAll"}.get(st[0]), type(ex).__name__),
                                "%r\n%s" % (ex, traceback.format_exc()[-800:]))
                    return False
                out.steps += 1
                if pending and len(pat.responses) >= n - len(pending):
                    try:
                        self._issue(pat, pending.pop(0), out)
                    except Exception as ex:
                        out.violate("exception", "Patron.request raised %s" % type(ex).__name__, repr(ex))
                        return False
                return True

            ok = not out.violations
            for st in plan["schedule"]:
                if not ok:
                    break
                ok = step(st)
            rounds = 0
            while ok and len(pat.responses) < n and rounds < 150 * n + 100:
                rounds += 1
                for st in (["c"], ["d", 0, 1 << 20], ["s"], ["d", 1, 1 << 20]):
                    if not step(st):
                        ok = False
                        break
            if ok:
                self._judge(out, pat, app, reqs, resps, tr)
        out.digest = tr.digest()
        out.state_digest = hashlib.sha256(json.dumps([repr(reqs), repr(resps)]).encode()).hexdigest()[:16]
        out.nontrivial = any(r["mode"] != "none" or r["qargs"] or r["headers"] for r in reqs)
        return out

    def _issue(self, pat, r, out):
        kw = dict(method=r["method"], path=r["path"], headers=dict((k, v) for k, v in r["headers"]))
        if r.get("pathq"):
            from urllib.parse import urlencode
            kw["path"] = r["path"] + "?" + urlencode([(k, v) for k, v in r["pathq"]])
            out.probe("query-in-path")
        from ioflo.aid.odicting import odict
        kw["qargs"] = odict((k, v) for k, v in r["qargs"])
        if r.get("samepath"):
            del kw["path"]
        if r["mode"] == "body":
            kw["body"] = bytes(r["body"])
        elif r["mode"] == "data":
            kw["data"] = r["data"]
        elif r["mode"] == "fargs":
            kw["fargs"] = odict((k, v) for k, v in r["fargs"])
        pat.request(**kw)

    def _judge(self, out, pat, app, reqs, resps, tr):
        n = len(reqs)
        got = list(pat.responses)
        tr.add("got", [(r["status"], bytes(r["body"])) for r in got], [s[0] for s in app.seen])
        if len(app.seen) != n or len(got) != n:
            out.violate("count", "round trip incomplete", "server saw %d requests, client got %d responses, expected %d; rxbs %r"
                        % (len(app.seen), len(got), n, bytes(pat.connector.rxbs)[:120]))
            return
        for i, (rq, (idx, env, body)) in enumerate(zip(reqs, app.seen)):
            def bad(kind, what):
                out.violate("request-" + kind, "server side %s differs" % kind, "request %d %s; spec %r" % (i, what, rq))
            if env.get("REQUEST_METHOD") != rq["method"]:
                return bad("method", "method %r" % env.get("REQUEST_METHOD"))
            if env.get("PATH_INFO") != rq["path"]:
                return bad("path", "path %r != %r" % (env.get("PATH_INFO"), rq["path"]))
            q = parse_qsl(env.get("QUERY_STRING", ""), keep_blank_values=True)
            want_q = [(k, v) for k, v in rq["qargs"]]
            if rq.get("pathq"):     # arguments from the path string and from the dict: every one arrives with its value (their order is not fixed)
                want_q = sorted(want_q + [(k, v) for k, v in rq["pathq"]])
                q = sorted(q)
            if q != want_q:
                return bad("query", "query args %r (QUERY_STRING %r) != %r" % (q, env.get("QUERY_STRING"), want_q))
            for k, v in rq["headers"]:
                key = "HTTP_" + k.upper().replace("-", "_")
                if env.get(key) != v:
                    return bad("headers", "header %s = %r != %r" % (k, env.get(key), v))
            # a consistent environment: nothing left over from an earlier request on the same connection
            mine = set(k.upper().replace("-", "_") for k, v in rq["headers"])
            for prev in reqs[:i]:
                for k, v in prev["headers"]:
                    key = k.upper().replace("-", "_")
                    if key not in mine and ("HTTP_" + key) in env:
                        return bad("environ", "environment carries header %s = %r of an earlier request" % (k, env.get("HTTP_" + key)))
                out.probe("environ-checked-against-earlier-request")
            if rq["mode"] == "none" and (env.get("CONTENT_TYPE") or env.get("HTTP_CONTENT_TYPE") or (env.get("HTTP_CONTENT_LENGTH") or "0") != "0"):
                return bad("environ", "a request without a body is presented with content type %r / %r, length %r"
                           % (env.get("CONTENT_TYPE"), env.get("HTTP_CONTENT_TYPE"), env.get("HTTP_CONTENT_LENGTH")))
            mode = rq["mode"]
            if mode == "body":
                if body != bytes(rq["body"]) or env.get("CONTENT_LENGTH") != str(len(rq["body"])):
                    return bad("body", "body %r (CONTENT_LENGTH %r) != %r" % (body, env.get("CONTENT_LENGTH"), bytes(rq["body"])))
            elif mode == "data":
                try:
                    d = json.loads(body.decode("utf-8"))
                except ValueError:
                    d = "<not json: %r>" % (body,)
                if d != rq["data"] or "application/json" not in env.get("CONTENT_TYPE", ""):
                    return bad("json", "json body %r (type %r) != %r" % (d, env.get("CONTENT_TYPE"), rq["data"]))
            elif mode == "fargs":
                f = parse_qsl(body.decode("utf-8"), keep_blank_values=True)
                if f != [(k, v) for k, v in rq["fargs"]] or "application/x-www-form-urlencoded" not in env.get("CONTENT_TYPE", ""):
                    return bad("form", "form args %r (body %r) != %r" % (f, body, rq["fargs"]))
            elif body:
                return bad("body", "unexpected body %r" % (body,))
            if (env.get("CONTENT_LENGTH") or "0") != str(len(body)):
                return bad("environ", "CONTENT_LENGTH %r inconsistent with body of %d bytes" % (env.get("CONTENT_LENGTH"), len(body)))
        from ioflo.aio.http import httping
        for i, (r, sh) in enumerate(zip(got, resps)):
            def bad(kind, what):
                out.violate("response-" + kind, "client side %s differs (%s)" % (kind, sh["kind"]), "response %d %s; shape %r" % (i, what, sh))
            if r.get("errored"):
                return bad("errored", "errored %r" % (r.get("error"),))
            if r["status"] != int(sh["status"].split()[0]):
                return bad("status", "status %r != %r" % (r["status"], sh["status"]))
            hdrs = dict((k.lower(), v) for k, v in r["headers"].items())
            if sh["kind"] == "error":
                err = httping.HTTPError(int(sh["status"].split()[0]), reason=sh.get("reason", ""), title=sh["title"], detail=sh["detail"], fault=sh.get("fault"))
                want = err.render()
                if bytes(r["body"]) != want:
                    return bad("body", "error body %r != %r" % (bytes(r["body"]), want))
                if r["reason"] != err.reason:
                    return bad("reason", "reason %r != %r" % (r["reason"], err.reason))
                for k, v in sh.get("eheaders", []):
                    if hdrs.get(k.lower()) != v:
                        return bad("headers", "header %s of the raised error = %r != %r" % (k, hdrs.get(k.lower()), v))
                    out.probe("error-header")
            else:
                want = b"".join(bytes(p) for p in sh["pieces"])
                if bytes(r["body"]) != want:
                    return bad("body", "body %r != %r" % (bytes(r["body"]), want))
                if sh["status"].split(" ", 1)[1] != r["reason"]:
                    return bad("reason", "reason %r != %r" % (r["reason"], sh["status"]))
                for k, v in sh["headers"]:
                    if hdrs.get(k.lower()) != v:
                        return bad("headers", "header %s = %r != %r" % (k, hdrs.get(k.lower()), v))
        if bytes(pat.connector.rxbs):
            out.violate("leftover", "bytes left after last response", repr(bytes(pat.connector.rxbs)[:100]))


CHECK = C30()
