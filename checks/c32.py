"""C32 — malformed HTTP input only affects its own connection.

Server side: real Valet with one healthy real Patron and 1-3 scripted raw peers that
deliver byte-level mutations of valid requests (broken start lines, header lines, chunk
sizes, chunk terminators, lengths, random bytes, truncation + close), fragmented and
interleaved by the schedule.  Client side: real Patron against a scripted server sending a
mutated response.  Oracle: no service call raises; the healthy connection gets exactly
its responses; a corrupted connection ends in {request served, still waiting, closed}.
"""
import hashlib
import ssl

from simkit.core import Outcome, Trace, Streams
from simkit.driver import Check
from netharn.http import http_world, HPORT, split_bytes
from netharn.duo import Duo, PlanApp
from substrate.net import SimSocket
from checks.c29 import gen_request, gen_response
from checks.c31 import gen_shape, C31

_judge = C31._judge


class HarnessProblem(Exception):
    """The harness itself failed (never a verdict about ioflo)."""


def mutate(g, raw, side):
    """Returns (kind, mutated bytes)."""
    lines = raw.split(b"\r\n")
    import random as _r
    sg = _r.Random(hashlib.sha256(repr(g.getstate()).encode()).hexdigest())      # side generator: the other mutations stay as they were
    if sg.random() < 0.08:
        # an otherwise well-formed message whose Content-Type has unusual parameters (no '=', empty, quoted ';')
        ct = sg.choice([b"text/plain;", b"text/plain; charset", b"text/plain; charset=utf-8;", b'multipart/form-data; boundary="a;b"', b"text/plain;;",
                        b"; charset=utf-8", b"text/plain; =x", b"application/json; charset", b"text/plain; charset=", b"application/json;charset"])
        head, sep, body = raw.partition(b"\r\n\r\n")
        head_l = [l for l in head.split(b"\r\n") if not l.lower().startswith(b"content-type")]
        head_l.insert(1, b"Content-Type: " + ct)
        return "ctype-params", b"\r\n".join(head_l) + sep + body
    kind = g.choice(["startline", "startline", "header-nocolon", "chunk-size", "chunk-term", "length", "random", "truncate", "flip", "longline",
                     "header-garbage", "dup-crlf", "many-headers"] + (["continue", "redirect-noloc", "redirect-badloc", "sse-badutf8", "json"] if side == "response" else []))
    if kind == "json":           # a JSON response whose declared charset or body cannot be decoded / deserialised
        cs = g.choice([b"utf-9", b"ut-8", b"hex", b"\xff\xfe", b"", b"latin-1", b"utf-16", b"none", b"utf-8; x=y", b"rot13", b"\"utf-8", b"unicode_escape"])
        body = g.choice([b'{"a": 1}', b"{bad", b"\xff\xfe\x00", b"[1, 2", b'"caf\xe9"', b"", b"\xef\xbb\xbf{}", b"nul\x00l"])
        return kind, (b"HTTP/1.1 200 OK\r\nContent-Type: application/json; charset=" + cs + b"\r\nContent-Length: %d\r\n\r\n" % len(body)) + body
    if kind == "continue":       # interim response(s) before the real one, complete or not
        return kind, b"HTTP/1.1 100 Continue\r\n" + g.choice([b"", b"X-Note: wait\r\n"]) + b"\r\n" + g.choice([raw, b"", b"HTTP/1.1 100 Continue\r\n\r\n" + raw, raw[:g.randint(0, len(raw))]])
    if kind == "redirect-noloc":
        return kind, b"HTTP/1.1 %d Moved\r\nContent-Length: 0\r\n\r\n" % g.choice([300, 301, 302, 303, 307])
    if kind == "redirect-badloc":
        loc = g.choice([b"http://h:abc/x", b"http://[::1/x", b"http://h:99999999/", b"//h:-1/", b"http://h]/", b"", b" ", b"http://h:\xb2/", b"%zz", b"http://%5B/x"])
        return kind, b"HTTP/1.1 %d Moved\r\nLocation: %s\r\nContent-Length: 0\r\n\r\n" % (g.choice([301, 302, 303, 307]), loc)
    if kind == "sse-badutf8":
        return kind, (b"HTTP/1.1 200 OK\r\nContent-Type: text/event-stream\r\nTransfer-Encoding: chunked\r\n\r\n" +
                      b"".join(b"%x\r\n%s\r\n" % (len(c), c) for c in [g.choice([b"data: \xff\xfe\n\n", b"\xef\xbb\xbfdata: ok\n\n", b"\xff\xfe\xfddata: x\n\n", b"id: \xc3\n\n",
                                                                                         b"event: \xe2\x82\ndata: y\n\n", b"data: caf\xc3", b"\xa9\n\n"]) for _ in range(g.randint(1, 3))]))
    if kind == "startline":
        if side == "request":
            lines[0] = g.choice([b"GET", b"GET /", b"FOO / HTTP/1.1", b"GET / FTP/1.1", b"", b"\x00\xff\xfe garbage", b"GET  /  HTTP/1.1  extra words",
                                 b"GET / HTTP/9.9", b" / HTTP/1.1", b"POST /r0 HTTP/1.1 HTTP/1.1",
                                 b"GET http://h:abc/ HTTP/1.1", b"GET http://[::1/r0 HTTP/1.1", b"GET //h:99999999/ HTTP/1.1", b"GET http://h:\xb2/ HTTP/1.1",
                                 b"GET http://h]/ HTTP/1.1", b"GET /%zz%\xff HTTP/1.1", b"GET http://h:-1/ HTTP/1.1"])
        else:
            lines[0] = g.choice([b"HTTP/1.1 abc OK", b"HTTP/1.1 99 Low", b"FOO 200 OK", b"", b"HTTP/1.1", b"HTTP/1.1 1000 Big", b"\x00\xff", b"HTTP/3.0 200 OK",
                                 b"HTTP/1.1 200", b"200 OK HTTP/1.1", b"HTTP/1.1 2\xb20 OK", b"HTTP/1.1 \xb3\xb2\xb9 OK", b"HTTP/1.\xb9 200 OK"])
        return kind, b"\r\n".join(lines)
    if kind == "header-nocolon":
        lines.insert(1, g.choice([b"BadHeaderLine", b"no colon here", b"\xff\xfe", b" leading: space"]))
        return kind, b"\r\n".join(lines)
    if kind == "header-garbage":
        lines.insert(1, bytes(g.randrange(256) for _ in range(g.randint(1, 30))).replace(b"\n", b"?"))
        return kind, b"\r\n".join(lines)
    if kind in ("chunk-size", "chunk-term"):
        head, sep, body = raw.partition(b"\r\n\r\n")
        head_l = [l for l in head.split(b"\r\n") if not l.lower().startswith((b"content-length", b"transfer-encoding"))]
        head_l.append(b"Transfer-Encoding: chunked")
        data = b"hello world!"
        if kind == "chunk-size":
            size = g.choice([b"zz", b"-5", b"1g", b"", b"ffffffffffffffffffff", b"0x5", b" ", b"5 5", b"\xff", b"\xb2", b"c\xb3", b"+c", b"c_0"])
            body = size + b"\r\n" + data + b"\r\n0\r\n\r\n"
        else:
            body = b"c\r\n" + data + g.choice([b"XX", b"X\r\n", b"\n\n", b"\r\r\n", b"junk\r\n"]) + b"0\r\n\r\n"
        return kind, b"\r\n".join(head_l) + b"\r\n\r\n" + body
    if kind == "length":
        head, sep, body = raw.partition(b"\r\n\r\n")
        head_l = [l for l in head.split(b"\r\n") if not l.lower().startswith((b"content-length", b"transfer-encoding"))]
        head_l.append(b"Content-Length: " + g.choice([b"abc", b"-1", b"99999", b"", b"1e3", b"5, 5", b"\xff", b"\xb2", b"5\xb3", b"\xb9\xb2", b"+5", b"1_0", b" 5 ", b"0x5"]))
        return kind, b"\r\n".join(head_l) + b"\r\n\r\n" + b"12345"
    if kind == "random":
        return kind, bytes(g.randrange(256) for _ in range(g.randint(1, 120)))
    if kind == "truncate":
        return kind, raw[:g.randint(0, max(0, len(raw) - 1))]
    if kind == "flip":
        b = bytearray(raw)
        for _ in range(g.randint(1, 3)):
            if b:
                i = g.randrange(len(b))
                b[i] = g.choice([0, 10, 13, 32, 58, 255, b[i] ^ 0x20])
        return kind, bytes(b)
    if kind == "longline":
        return kind, g.choice([b"GET /" + b"a" * 70000 + b" HTTP/1.1\r\n\r\n", b"GET / HTTP/1.1\r\nX: " + b"b" * 70000, b"c" * 66000]) if side == "request" else \
            g.choice([b"HTTP/1.1 200 " + b"a" * 70000, b"HTTP/1.1 200 OK\r\nX: " + b"b" * 70000])
    if kind == "many-headers":     # each line well formed, but more distinct header names than any parser limit (in the head or as trailers)
        n = g.choice([101, 101, 120, 300, 1100])
        extra = [b"X-H%d: v%d" % (i, i) for i in range(n)]
        if g.random() < 0.7:
            return kind, b"\r\n".join(lines[:1] + extra + lines[1:])
        head, sep, body = raw.partition(b"\r\n\r\n")
        head_l = [l for l in head.split(b"\r\n") if not l.lower().startswith((b"content-length", b"transfer-encoding"))]
        head_l.append(b"Transfer-Encoding: chunked")
        return kind, b"\r\n".join(head_l) + b"\r\n\r\n5\r\nhello\r\n0\r\n" + b"\r\n".join(extra) + b"\r\n\r\n"
    if kind == "dup-crlf":
        return kind, raw.replace(b"\r\n", b"\r\r\n", 1)
    return kind, raw


class C32(Check):
    pid = "C32"
    level = "exploration"
    engine = "netsim.http"
    design_ref = "§6 C32"
    rule = ("server side: a Valet with one healthy keep-alive Patron (1-3 requests, drawn response shapes) and 1-3 raw peers "
            "each delivering a byte-level mutation of a valid request (13 mutation kinds; 18 on the client side) cut into pieces, optionally closing "
            "afterwards, interleaved by a seeded schedule; client side: a Patron receiving a mutated response in pieces, "
            "optionally followed by close; non-trivial = a mutated message reached a parser; distinct = digest of "
            "(mutation kinds, bytes, cuts, schedule)")
    components = {"real": ["ioflo.aio.http.serving.Valet/Requestant/Responder", "ioflo.aio.http.clienting.Patron/Respondent",
                           "ioflo.aio.http.httping parsers", "ioflo.aio.tcp Server/Incomer/Client"],
                  "stub": ["socket module", "raw scripted peers", "WSGI application (plan driven)"]}
    assumptions = ["'closes that connection' may take further service passes; the healthy connection is judged against the expected content"]
    required_probes = ["server", "client", "bad-closed", "bad-served-or-waiting", "healthy-complete", "client-errored"]
    quick_runs = 8000
    thorough_runs = 400000
    shrink_fields = ["schedule", "bad"]

    def directed(self):
        d = []
        g = Streams(77).gen
        base = gen_request(g, nospace_ok=False)["raw"]
        for raw in (b"POST /r0 HTTP/1.1\r\nTransfer-Encoding: chunked\r\n\r\nzz\r\nhello\r\n0\r\n\r\n",
                    b"POST /r0 HTTP/1.1\r\nTransfer-Encoding: chunked\r\n\r\n5\r\nhelloXX0\r\n\r\n",
                    b"GET / HTTP/1.1\r\nNoColonHere\r\n\r\n", b"FOO / HTTP/1.1\r\n\r\n", b"\x00\x01\x02\r\n\r\n"):
            d.append({"side": "server", "shapes": [gen_shape(g, 0), gen_shape(g, 1)], "bad": [{"kind": "directed", "raw": raw, "cuts": [7], "close": False}],
                      "schedule": [], "bs": 64})
        for raw in (b"HTTP/1.1 200 OK\r\nTransfer-Encoding: chunked\r\n\r\nzz\r\nhello\r\n0\r\n\r\n", b"HTTP/1.1 abc OK\r\n\r\n",
                    b"HTTP/1.1 200 OK\r\nNoColon\r\nContent-Length: 0\r\n\r\n", b"HTTP/1.1 200 OK\r\nTransfer-Encoding: chunked\r\n\r\n5\r\nhelloXX0\r\n\r\n"):
            d.append({"side": "client", "shapes": [], "bad": [{"kind": "directed", "raw": raw, "cuts": [9], "close": True}], "schedule": [], "bs": 64})
        return d

    def generate(self, S, index, tier):
        g = S.gen
        f = S.fault
        s = S.sched
        if index % 3 == 2:
            raw = gen_response(g, nospace_ok=False)["raw"]
            kind, bad = mutate(f, raw, "response")
            cuts = sorted(s.randint(1, max(1, len(bad))) for _ in range(s.randint(0, 4)))
            return {"side": "client", "shapes": [], "bad": [{"kind": kind, "raw": bad, "cuts": cuts, "close": s.random() < 0.5}], "schedule": [], "bs": g.choice([3, 64, 4096]),
                    "redirectable": g.random() < 0.6}
        shapes = [gen_shape(g, i) for i in range(g.randint(1, 3))]
        bads = []
        for k in range(g.randint(1, 3)):
            raw = gen_request(g, nospace_ok=False)["raw"]
            kind, bad = mutate(f, raw, "request")
            cuts = sorted(s.randint(1, max(1, len(bad))) for _ in range(s.randint(0, 4)))
            bads.append({"kind": kind, "raw": bad, "cuts": cuts, "close": s.random() < 0.4})
        sched = []
        for _ in range(s.randint(0, 40)):
            r = s.random()
            if r < 0.25:
                sched.append(["c"])
            elif r < 0.55:
                sched.append(["s"])
            elif r < 0.85:
                sched.append(["b", s.randint(0, len(bads) - 1)])
            else:
                sched.append(["d"])
        return {"side": "server", "shapes": shapes, "bad": bads, "schedule": sched, "bs": g.choice([3, 64, 4096])}

    def execute(self, plan):
        out = Outcome()
        tr = Trace(keep=False)
        out.probe(plan["side"])
        if plan["side"] == "server":
            self._server(plan, out, tr)
        else:
            self._client(plan, out, tr)
        out.digest = tr.digest()
        out.state_digest = hashlib.sha256(repr((plan["side"], [(b["kind"], bytes(b["raw"]), b["cuts"], b["close"]) for b in plan["bad"]], plan["schedule"])).encode()).hexdigest()[:16]
        out.nontrivial = True
        return out

    def _server(self, plan, out, tr):
        shapes = plan["shapes"]
        n = len(shapes)
        app = PlanApp(shapes)
        with http_world(cap=1 << 20) as net:
            duo = Duo(net, app, bs_c=plan["bs"], bs_s=plan["bs"])
            if not duo.connect():
                raise RuntimeError("harness: duo did not connect")
            pat, valet = duo.patron, duo.valet
            for i in range(n):
                # (a shape drawn as the answer to a HEAD request is asked for with HEAD, as in C31)
                pat.request(method=shapes[i].get("method") or ("POST" if i % 2 else "GET"), path="/r%d" % i, body=(b"body%d" % i) if i % 2 and not shapes[i].get("method") else None)
            peers = []
            for b in plan["bad"]:
                raw = SimSocket(net, "peer")
                for k in range(3):
                    raw.connect_ex(("127.0.0.1", HPORT))
                    net.deliver_all()
                peers.append({"sock": raw, "pieces": split_bytes(bytes(b["raw"]), b["cuts"]), "i": 0, "close": b["close"], "got": bytearray(), "spec": b})

            def peer_step(p):
                if p["i"] < len(p["pieces"]):
                    try:
                        p["sock"].send(p["pieces"][p["i"]])
                    except OSError:
                        pass
                    p["i"] += 1
                elif p["close"] and not p["sock"].closed:
                    p["sock"].close()
                if not p["sock"].closed:
                    try:
                        p["got"].extend(p["sock"].recv(1 << 16))
                    except OSError:
                        pass

            def step(st):
                try:
                    if st[0] == "c":
                        pat.serviceAll()
                    elif st[0] == "s":
                        valet.serviceAll()
                    elif st[0] == "b":
                        peer_step(peers[st[1] % len(peers)])
                    net.deliver_all()
                except Exception as ex:
                    import traceback
                    who = {"c": "Patron.serviceAll", "s": "Valet.serviceAll"}.get(st[0], st[0])
                    kinds = ",".join(sorted(set(b["kind"] for b in plan["bad"]))) if len(plan["bad"]) == 1 else "multi"
                    out.violate("exception", "%s raised %s [%s]" % (who, type(ex).__name__, kinds), "%r\n%s" % (ex, traceback.format_exc()[-900:]))
                    return False
                out.steps += 1
                return True

            ok = True
            for st in plan["schedule"]:
                tr.add("st", st)
                if not step(st):
                    ok = False
                    break
            rounds = 0
            while ok and rounds < 40 + 20 * n:
                rounds += 1
                for st in [["c"]] + [["b", k] for k in range(len(peers))] + [["s"]]:
                    if not step(st):
                        ok = False
                        break
                if len(pat.responses) >= n and all(p["i"] >= len(p["pieces"]) for p in peers) and rounds > 6:
                    break
            if not ok:
                return
            mine = pat.connector.ca
            app.seen = [x for x in app.seen if x[1].get("REMOTE_ADDR") == mine]
            _judge(self, out, pat, valet, app, shapes, n, tr)
            if out.violations:
                v = out.violations[-1]
                v.kind = "healthy-" + v.kind
                v.signature = "healthy connection disturbed: " + v.signature
                return
            out.probe("healthy-complete")
            for p in peers:
                ss = p["sock"].peer
                if ss is not None and (ss.closed or ss.shut_wr):
                    out.probe("bad-closed")
                else:
                    out.probe("bad-served-or-waiting")
                tr.add("peer", p["spec"]["kind"], bytes(p["got"])[:60], ss.closed if ss else None)

    def _client(self, plan, out, tr):
        from ioflo.aio.http import clienting
        from ioflo.base.storing import Store
        b = plan["bad"][0]
        pieces = split_bytes(bytes(b["raw"]), b["cuts"])
        with http_world(cap=1 << 20) as net:
            lst = SimSocket(net, "peer")
            lst.bind(("0.0.0.0", HPORT))
            lst.listen(5)
            pat = clienting.Patron(store=Store(stamp=0.0), hostname="127.0.0.1", port=HPORT, bufsize=plan["bs"], redirectable=bool(plan.get("redirectable", False)))
            pat.open()
            srv = None
            try:
                for i in range(6):
                    pat.serviceAll()
                    net.deliver_all()
                    if srv is None:
                        try:
                            srv, ca = lst.accept()
                        except OSError:
                            pass
                if srv is None or not pat.connector.connected:
                    raise HarnessProblem("harness: patron did not connect")
                pat.request(method="GET", path="/x")
                pat.serviceAll()
                net.deliver_all()
                for piece in pieces:
                    srv.send(piece)
                    net.deliver_all()
                    pat.serviceAll()
                    net.deliver_all()
                if b["close"]:
                    srv.close()
                    net.deliver_all()
                for k in range(5):
                    pat.serviceAll()
                    net.deliver_all()
            except HarnessProblem:
                raise
            except OSError as ex:
                if isinstance(ex, ssl.SSLError):
                    raise
                tr.add("oserror", ex.errno)      # a transport error towards a peer that went away propagates by C25: not a parse matter
                return
            except Exception as ex:
                import traceback
                out.violate("exception", "Patron.serviceAll raised %s [%s]" % (type(ex).__name__, b["kind"]), "%r\n%s" % (ex, traceback.format_exc()[-900:]))
                return
            for r in pat.responses:
                if r["errored"]:
                    out.probe("client-errored")
            tr.add("client", [(r["status"], r["errored"]) for r in pat.responses])


CHECK = C32()
