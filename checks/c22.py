"""C22 — each log rule records exactly the runs and updates it promises.

Real: Builder (logger / log / loggee verbs), Logger tasker, Log rules, filing.ocfn, Skedder,
Store / Share / Deck.  Simulated: the disk (substrate.fs, fault-free here), the history of
share writes (Env action placed before / after the logger in the order).  Oracle: the log
file on the simulated disk against the trace of writes and logger runs in execution order.
"""
import hashlib
from fractions import Fraction

from simkit.core import Outcome, Trace
from simkit.driver import Check
from logsim.harness import run_logged, LOGDIR
from flosim.gen import env_table
from checks.flocommon import COMPONENTS

RULES = ["once", "always", "update", "change", "streak", "deck", "never"]
RULENAME = {"once": "Once", "always": "Always", "update": "Update", "change": "Change", "streak": "Streak", "deck": "Deck", "never": "Never"}


def script_of(plan):
    L = ["house h", ""]
    L.append("  init .sim.v with a 0 b 0")
    L.append("  init .sim.w with value 0")
    for pos in ("front", "back"):
        L.append("  framer wr%s be active in %s first w%s" % (pos, pos, pos))
        L.append("    frame w%s" % pos)
        L.append("      recur")
        L.append("        do verif env with eid %d" % (0 if pos == "front" else 1))
    L.append("  framer zclk be active in front first z0")
    L.append("    frame z0")
    L.append("      repeat %d" % plan["ticks"])
    L.append("    frame z1")
    L.append("      enter")
    L.append("        bid stop all")
    if plan.get("restart"):
        L.append("  framer zrst be active in back first r0")
        L.append("    frame r0")
        L.append("      repeat %d" % plan["restart"])
        L.append("    frame r1")
        L.append("      enter")
        L.append("        bid stop lg")
        L.append("      repeat 2")
        L.append("    frame r2")
        L.append("      enter")
        L.append("        bid start lg")
    if plan.get("slave"):
        # the logger as a slave tasker driven by fiats: a framer between the two writers starts it and runs it once per tick; a
        # framer after the second writer stops it in tick k, i.e. in the same tick as, and after, its last run (the first framer
        # leaves its running frame at the start of tick k + 1)
        k = int(plan["slave"])
        P = Fraction(plan["P"])
        L.append("  framer drv be active in mid first d0")
        L.append("    frame d0")
        L.append("      enter")
        L.append("        ready lg")
        L.append("        start lg")
        L.append("      recur")
        L.append("        run lg")
        L.append("      go d1 if elapsed >= %s" % float((k + 1) * P))
        L.append("    frame d1")
        L.append("  framer drw be active in back first s0")
        L.append("    frame s0")
        L.append("      go s1 if elapsed >= %s" % float(k * P))
        L.append("    frame s1")
        L.append("      enter")
        L.append("        stop lg")
    lg = "  logger lg to /simlog" + (" be slave" if plan.get("slave") else "")
    if plan.get("lperiod"):
        lg += " at %s" % plan["lperiod"]
    if plan.get("prefill"):
        lg += " reuse"      # the fixed directory of an earlier process, in which a log file of that name already exists
    if plan.get("rotate"):
        lg += " keep 2 cycle 0.5 size 0"     # rotation on: every rotated copy and every new main file starts with one header too
    L.append(lg + " flush 1.0")
    rule = plan["rule"]
    L.append("    log l1 on %s" % rule)
    if rule == "deck":
        L.append("      loggee a b in .sim.v as v")
    elif rule == "streak":
        L.append("      loggee a in .sim.v as v")
    elif plan.get("fields") == "a":
        L.append("      loggee a in .sim.v as v")
    elif plan.get("fields") == "two":
        L.append("      loggee a in .sim.v as v value in .sim.w as w")
    elif plan.get("fields") == "abs":
        # a selection that names a field the share does not have when the logger starts (it may appear later): its column stays
        # empty until then and must not keep the fields listed after it from being watched
        L.append("      loggee zz a in .sim.v as v")
    else:
        L.append("      loggee .sim.v as v")
    return "\n".join(L) + "\n"


class C22(Check):
    pid = "C22"
    level = "exploration"
    engine = "logsim"
    design_ref = "§6 C22"
    rule = ("one logger (own period >= the tick period or every tick) with one log of a drawn rule (once, always, update, change, "
            "streak, deck, never) and field selection (all fields, one field, two loggees, a selection naming a field that is absent at start), writer framers before and after the "
            "logger in the tick order applying a seeded history of share updates with same and different values, field-only "
            "changes, several updates per tick, list appends and deck pushes; the file on the simulated disk is compared with "
            "what the rule promises given the trace of writes and logger runs in execution order; variations: logger stopped and started again, a reused directory holding an empty or a started file (with and without rotation), the logger as a slave run and stopped by fiats in one tick; non-trivial = an update "
            "landed after the logger in a tick in which the logger ran; distinct = digest of (rule, history, file)")
    components = dict(COMPONENTS)
    components["real"] = COMPONENTS["real"] + ["ioflo.base.logging.Logger / Log", "ioflo.aid.filing.ocfn"]
    components["stub"] = COMPONENTS["stub"] + ["file system (substrate.fs.SimFS, no faults)", "calendar (log directory name)"]
    assumptions = ["'update': at each logger run after the first a record is due iff some loggee was updated after the previous record in execution order (not stamp order)",
                   "the final log pass made when the logger is stopped counts as a logger run"]
    required_probes = ["update-after-logger-same-tick", "same-value-update", "logger-period", "streak", "deck", "logger-restarted", "deck-empty-mapping", "deck-non-mapping-skipped", "reused-empty-file", "reused-content-file", "rotating-log", "stopped-in-the-tick-of-its-last-run", "selected-field-absent-at-start", "absent-field-appeared"]
    quick_runs = 6000
    thorough_runs = 300000
    shrink_fields = ["hist0", "hist1"]

    def directed(self):
        return [{"P": "0.25", "ticks": 6, "rule": "update", "fields": None, "lperiod": None,
                 "hist0": [[1, ".sim.v", "a", 11]], "hist1": [[1, ".sim.v", "a", 12], [3, ".sim.v", "b", 13]]},
                {"P": "0.25", "ticks": 6, "rule": "change", "fields": "a", "lperiod": "0.5",
                 "hist0": [[1, ".sim.v", "a", 5], [2, ".sim.v", "a", 5], [3, ".sim.v", "b", 9]], "hist1": [[4, ".sim.v", "a", 6]]},
                # a selected field that is absent when the logger starts, the field after it changing meanwhile, then it appears
                {"P": "0.25", "ticks": 8, "rule": "change", "fields": "abs", "lperiod": None,
                 "hist0": [[1, ".sim.v", "a", 5], [3, ".sim.v", "a", 6], [5, ".sim.v", "zz", 7]], "hist1": [[6, ".sim.v", "a", 8]]},
                {"P": "0.25", "ticks": 6, "rule": "always", "fields": "abs", "lperiod": None,
                 "hist0": [[2, ".sim.v", "a", 5]], "hist1": [[4, ".sim.v", "zz", 7]]}]

    def generate(self, S, index, tier):
        g = S.gen
        rule = RULES[index % len(RULES)]
        P = g.choice(["0.25", "0.125"])
        ticks = g.randint(3, 14)
        counter = [10]

        def hist():
            h = []
            for t in range(ticks + 2):
                for _ in range(g.choice([0, 0, 0, 1, 1, 2])):
                    counter[0] += 1
                    if rule == "deck":
                        r = g.random()
                        if r < 0.6:
                            entry = {"a": counter[0], "b": -counter[0]}
                        elif r < 0.7:
                            entry = {"a": counter[0]}                      # partial: the missing field stays blank
                        elif r < 0.8:
                            entry = {}                                     # empty mapping: a record with every field blank
                        elif r < 0.88:
                            entry = {"b": counter[0], "zz": 1}             # extra key ignored
                        else:
                            entry = g.choice([None, [], ["hi", "there"], 0])   # not a mapping: skipped, the rest of the deck still logged
                        h.append([t, ".sim.v", "@push", entry])
                    elif rule == "streak":
                        h.append([t, ".sim.v", "@append:a", counter[0] if g.random() < 0.8 else g.choice([0, 0, -1])])
                    else:
                        path = g.choice([".sim.v", ".sim.v", ".sim.w"])
                        field = g.choice(["a", "a", "b"]) if path == ".sim.v" else "value"
                        val = counter[0] if g.random() < 0.65 else g.choice([0, 1])
                        h.append([t, path, field, val])
            return h
        plan = {"P": P, "ticks": ticks, "rule": rule, "fields": g.choice([None, "a", "two"]),
                "lperiod": g.choice([None, None, "0.5", "0.75"]), "hist0": hist(), "hist1": hist(),
                "restart": g.randint(1, max(1, ticks - 3)) if rule in ("always", "once", "never") and g.random() < 0.35 else None,
                # an earlier process left a log file of the same name in the (reused) directory: empty (it died before its header
                # reached the disk) or started (header and a record): only the empty one is a new file and gets a header
                "prefill": g.choice([None, None, None, None, None, "empty", "empty", "content"]), "rotate": g.random() < 0.3}
        # (side generator: all other plans stay as they were)
        import random as _r
        sg = _r.Random(hashlib.sha256(repr(g.getstate()).encode()).hexdigest())
        if sg.random() < 0.2 and not plan["restart"] and not plan["prefill"]:
            plan["slave"] = sg.randint(1, max(1, ticks - 2))
            plan["lperiod"] = None
            plan["rotate"] = False
        if rule in ("once", "always", "update", "change") and sg.random() < 0.2:
            plan["fields"] = "abs"
            for key in ("hist0", "hist1"):
                for h in plan[key]:
                    if h[1] == ".sim.v" and h[2] == "b" and sg.random() < 0.5:
                        h[2] = "zz"
        return plan

    def execute(self, plan):
        out = Outcome()
        tr = Trace(keep=False)
        rule = plan["rule"]
        script = script_of(plan)
        env = {0: {}, 1: {}}
        if rule == "streak":
            env[0].setdefault(0, []).append((".sim.v", "a", []))   # the streak field starts as an empty list
        for eid, key in ((0, "hist0"), (1, "hist1")):
            for t, path, field, val in plan[key]:
                env[eid].setdefault(t, []).append((path, field, val))
        P = Fraction(plan["P"])
        fs0 = None
        old_text = ""
        if plan.get("prefill"):
            from substrate.fs import SimFS, Inode
            from logsim.harness import LOGDIR
            fs0 = SimFS()
            fs0.makedirs(LOGDIR)
            ino = Inode()
            if plan["prefill"] == "content":
                old_text = "OLDHEADER\nold\trecord\n"
                ino.data.append(old_text)
                ino.synced = 1
            fs0.files[LOGDIR + "/l1.txt"] = ino
            out.probe("reused-" + plan["prefill"] + "-file")
        res, fs, killed = run_logged(script, float(P), env_table=env, cap=float((plan["ticks"] + 10) * P), fs=fs0)
        if res is None or not res.built or res.exc is not None:
            out.violate("rejected", "logging program rejected or raised", "res=%r exc=%r errors=%r\n%s" % (res, getattr(res, "exc", None), getattr(res, "build_errors", None), script))
            out.digest = tr.digest()
            return out
        files = fs.snapshot()
        if plan.get("rotate"):
            # with rotation only the header clause is judged here (C23 judges the records): every non-empty file of the log, the
            # rotated copies included, starts with exactly one header
            out.probe("rotating-log")
            real_header = "text\t%s\tl1\n_time\t" % RULENAME[rule]
            for pth, text in sorted(files.items()):
                nm = pth.rsplit("/", 1)[-1]
                if not (nm.startswith("l1") and nm.endswith(".txt")) or not text:
                    continue
                if text.startswith("OLDHEADER\n"):
                    if "text\t" in text:
                        out.violate("header", "rule %s: header" % rule, "file %s: a started file that was continued got a second header\n%r\n%s" % (nm, text[:200], script))
                        break
                    continue
                if not text.startswith(real_header) or text.count("text\t") != 1:
                    out.violate("header", "rule %s: header" % rule, "file %s does not start with exactly one header\n%r\n%s" % (nm, text[:200], script))
                    break
            out.digest = tr.digest()
            out.state_digest = hashlib.sha256(repr((rule, sorted(files.items()))).encode()).hexdigest()[:16]
            return out
        cands = sorted(p for p in files if p.endswith("/l1.txt"))
        text = files.get(cands[0]) if len(cands) == 1 else None
        fields = plan.get("fields")
        if rule == "deck":
            cols = ["v.a", "v.b"]
        elif rule == "streak" or fields == "a":
            cols = ["v"]
        elif fields == "two":
            cols = ["v", "w"]
        elif fields == "abs":
            cols = ["v.zz", "v.a"]
            out.probe("selected-field-absent-at-start")
        else:
            cols = ["v.a", "v.b"]
        header = "text\t%s\tl1\n_time\t%s\n" % (RULENAME[rule], "\t".join(cols))
        sig = "rule %s" % rule

        def bad(kind, detail):
            out.violate(kind, "%s: %s" % (sig, kind), "%s\nfile=%r\n%s" % (detail, text, script))

        if old_text:
            # a started file is continued: no second header, the old content untouched
            if text is not None and text.startswith(old_text) and "text\t" not in text:
                text = header + text[len(old_text):]
            elif text is not None:
                bad("header", "a reused log file that was already started was not simply continued")
                text = None
                out.digest = tr.digest()
                return out
        if text is None:
            bad("no-file", "log file missing; files %r" % sorted(files))
        elif not text.startswith(header):
            bad("header", "file does not start with the header %r" % header)
        elif text.count("text\t") != 1:
            bad("header", "more than one header in a new file")
        else:
            lines = text[len(header):].split("\n")
            if lines and lines[-1] == "":
                lines.pop()
            got = [tuple(l.split("\t")) for l in lines]
            want = self._expected(plan, res, rule, cols, fields, out)
            tr.add("records", got)
            causes = dict(getattr(self, "_causes", {}))
            guard = 0
            while want is not None and got != want and guard < 50:
                guard += 1
                k = 0
                while k < min(len(got), len(want)) and got[k] == want[k]:
                    k += 1
                cause = causes.get(k)
                if cause and k < len(want) and got[k:k + 1] != want[k:k + 1]:
                    # the specific, recorded shape: report it, then drop the promised record and keep comparing the rest
                    bad("missing-record (%s)" % cause, "record %d promised %r is not in the file (file %d records)" % (k, want[k], len(got)))
                    del want[k]
                    causes = dict(((i - 1 if i > k else i), c) for i, c in causes.items() if i != k)
                    continue
                kind = "missing-record" if len(got) < len(want) else ("extra-record" if len(got) > len(want) else "wrong-record")
                bad(kind, "first difference at record %d: file has %r, the rule promises %r (file %d records, promised %d)"
                    % (k, got[k:k + 2], want[k:k + 2], len(got), len(want)))
                break
        if plan.get("lperiod"):
            out.probe("logger-period")
        if plan.get("restart"):
            out.probe("logger-restarted")
        if rule in ("streak", "deck"):
            out.probe(rule)
        out.digest = tr.digest()
        out.state_digest = hashlib.sha256(repr((rule, fields, plan["lperiod"], plan["hist0"], plan["hist1"])).encode()).hexdigest()[:16]
        out.steps = plan["ticks"]
        out.sim_time = float(plan["ticks"] * P)
        return out

    def _expected(self, plan, res, rule, cols, fields, out):
        """Replays the trace (env writes and logger runs in execution order) against the rule."""
        v = {"a": 0, "b": 0}
        w = {"value": 0}
        streak = []
        deck = []
        records = []
        updated_since = False      # some loggee updated since the previous record
        upd_stamps = []            # stamps of the updates since the previous record
        prev_rec_stamp = None
        self._causes = {}
        self._was_running = False      # per execution: no state may survive from the previous plan
        logged_at = {}                 # stamp -> a record was written at that stamp
        logged_once = False
        last_vals = None
        loggees = {"v": (".sim.v",), "two": (".sim.v", ".sim.w")}
        watch = (".sim.v", ".sim.w") if fields == "two" else (".sim.v",)

        def fmt(x):
            return "%s" % (x,)

        def row(stamp):
            if fields == "a" or rule == "streak":
                vals = [v["a"]]
            elif fields == "two":
                vals = [v["a"], w["value"]]
            elif fields == "abs":
                vals = [v.get("zz", ""), v["a"]]
            else:
                vals = [v["a"], v["b"]]
            return (fmt(stamp),) + tuple(fmt(x) for x in vals)

        def current():
            if fields == "a":
                return (v["a"],)
            if fields == "two":
                return (v["a"], w["value"])
            if fields == "abs":
                if "zz" in v:
                    out.probe("absent-field-appeared")
                return (v.get("zz", ("absent",)), v["a"])
            return (v["a"], v["b"])

        ran_this_tick = {}
        for e in res.trace:
            kind = e[2]
            stamp = e[1]
            if kind == "env":
                _eid, path, field, val = e[3], e[4], e[5], e[6]
                if field == "@push":
                    deck.append(val)
                elif field.startswith("@append:"):
                    streak.append(val)
                elif path == ".sim.v":
                    if isinstance(val, list):
                        continue
                    if v.get(field) == val:
                        out.probe("same-value-update")
                    v[field] = val
                else:
                    if w.get(field) == val:
                        out.probe("same-value-update")
                    w[field] = val
                if path in watch and not field.startswith("@"):
                    updated_since = True
                    upd_stamps.append(stamp)
                    if ran_this_tick.get(stamp) and logged_at.get(stamp):
                        out.probe("update-after-logger-same-tick")
                        out.nontrivial = True
            elif kind == "sent" and e[3] == "lg":
                control, status = e[4], e[5]
                ran = (control == 1 and status == 1) or (control == 2 and status == 2) or (control == 0 and status == 0 and self._was_running)
                self._was_running = status in (1, 2)
                if not ran:
                    continue
                if control == 0 and ran_this_tick.get(stamp):
                    out.probe("stopped-in-the-tick-of-its-last-run")
                ran_this_tick[stamp] = True
                if rule == "never":
                    continue
                if rule == "once":
                    if not logged_once:
                        records.append(row(stamp))
                        logged_once = True
                elif rule == "always":
                    records.append(row(stamp))
                elif rule == "update":
                    if not logged_once or updated_since:
                        if logged_once and upd_stamps and all(u == prev_rec_stamp for u in upd_stamps):
                            self._causes[len(records)] = "every update since the previous record was made later in the same tick as that record"
                        records.append(row(stamp))
                        logged_once = True
                        logged_at[stamp] = True
                        prev_rec_stamp = stamp
                    updated_since = False
                    upd_stamps = []
                elif rule == "change":
                    if not logged_once or current() != last_vals:
                        records.append(row(stamp))
                        logged_once = True
                        last_vals = current()
                    elif not logged_once:
                        last_vals = current()
                elif rule == "streak":
                    for x in streak:
                        records.append((fmt(stamp), fmt(x)))
                    streak = []
                elif rule == "deck":
                    for d in deck:
                        if not isinstance(d, dict):
                            out.probe("deck-non-mapping-skipped")
                            continue
                        if not d:
                            out.probe("deck-empty-mapping")
                        records.append((fmt(stamp), fmt(d.get("a", "")), fmt(d.get("b", ""))))
                    deck = []
        return records

    _was_running = False


CHECK = C22()
