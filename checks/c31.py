"""C31 — keep-alive connections carry N requests to N ordered, framed responses.

Real: Patron/Requester/Respondent <-> Valet/Requestant/Responder over Client <-> Server
(plain, or TLS stub).  Simulated: the network (tiny pipes, byte-wise delivery), and the
caller: the interleaving of client service, server service and delivery is the schedule.
Stub: the WSGI app, answering from the plan (fixed length, streamed without a length with
empty yields in between, empty, raised HTTPError).
"""
import hashlib

from simkit.core import Outcome, Trace
from simkit.driver import Check
from netharn.http import http_world
from netharn.duo import Duo, PlanApp

KINDS = ["fixed", "stream", "empty", "nolen-empty", "error"]


def gen_shape(g, i):
    kind = g.choice(["fixed", "fixed", "stream", "stream", "empty", "nolen-empty", "error"])
    tok = ("<%d:%04x>" % (i, g.getrandbits(16))).encode()
    shape = {"kind": kind, "status": g.choice(["200 OK", "201 Created", "404 Not Found"]), "pieces": [], "gaps": [], "headers": [["X-Tok", tok.decode()]],
             "pregap": g.choice([0, 0, 1, 3])}
    if kind in ("fixed", "stream"):
        n = g.randint(1, 4)
        shape["pieces"] = [tok + bytes(g.choice(b"abc\r\n0") for _ in range(g.randint(0, 12))) for _ in range(n)]
        for _ in range(g.choice([0, 0, 1, 2])):            # empty items among / after the data (legal WSGI)
            shape["pieces"].insert(g.randint(0, len(shape["pieces"])), b"")
        shape["gaps"] = [g.choice([0, 0, 1, 2]) for _ in shape["pieces"]]
    elif kind in ("empty", "nolen-empty"):
        shape["pieces"] = [b""] * g.choice([0, 0, 1, 2])
        shape["gaps"] = [g.choice([0, 1]) for _ in shape["pieces"]]
    elif kind == "error":
        shape["status"] = g.choice(["400 Bad Request", "404 Not Found", "500 Internal Server Error"])
        shape["title"] = tok.decode()
    if kind != "error" and g.random() < 0.2:
        shape["aslist"] = True
    elif kind in ("fixed", "stream") and g.random() < 0.2:
        shape["retval"] = True      # body generator that ends with 'return <last piece>'

    if kind in ("empty", "nolen-empty") and g.random() < 0.5:      # responses that never carry a body: HEAD, 204, 304
        if g.random() < 0.5:
            shape["method"] = "HEAD"
        else:
            shape["status"] = g.choice(["204 No Content", "304 Not Modified"])
        if kind == "empty" and shape["status"][:3] != "204" and g.random() < 0.5:
            shape["declared"] = g.choice([1, 17, 300])      # HEAD / 304 carrying the entity's Content-Length, and no body
    return shape


class C31(Check):
    pid = "C31"
    level = "exploration"
    engine = "netsim.http"
    design_ref = "§6 C31"
    rule = ("one persistent connection, N<=8 requests (queued up front or progressively) each answered by a drawn WSGI "
            "response shape (fixed length in pieces, streamed without length, empty yields before / among / after the data, "
            "empty with and without length with and without empty items, generator or list-returning app, raised HTTPError), pipe capacity and buffer sizes drawn per run, a seeded schedule of client "
            "service / server service / partial delivery steps followed by a fair tail; non-trivial = N>=2 and at least "
            "one length-less response; distinct = digest of the per-step (responses received, server responders busy)")
    components = {"real": ["ioflo.aio.http.clienting.Patron/Requester/Respondent", "ioflo.aio.http.serving.Valet/Requestant/Responder",
                           "ioflo.aio.tcp Client/Server/Incomer (+Tls classes over the stub)"],
                  "stub": ["socket module", "TLS record layer", "WSGI application (plan driven)"]}
    assumptions = ["responses are read from Patron.responses after the run (a client may queue requests and collect later)"]
    required_probes = ["n>=3", "stream-after-stream", "error-shape", "tls", "progressive", "partial-delivery", "completed", "empty-item-with-length-0", "list-app", "bodyless-without-length-then-another", "bodyless-with-declared-length-then-another", "generator-return-value"]
    quick_runs = 6000
    thorough_runs = 300000
    shrink_fields = ["schedule", "shapes"]

    def directed(self):
        def sh(kind, i, **kw):
            d = {"kind": kind, "status": "200 OK", "pieces": [b"<%d>data" % i, b"more%d" % i] if kind in ("fixed", "stream") else [],
                 "gaps": [1, 0], "headers": [["X-Tok", "<%d>" % i]], "pregap": 0}
            d.update(kw)
            return d
        return [
            {"tls": False, "cap": 4096, "bs": 4096, "upfront": True, "schedule": [],
             "shapes": [sh("stream", 0), sh("stream", 1), sh("fixed", 2), sh("nolen-empty", 3), sh("error", 4, status="404 Not Found", title="<4>"), sh("empty", 5), sh("stream", 6),
                        sh("empty", 7, pieces=[b""], gaps=[1]), sh("fixed", 8, aslist=True), sh("empty", 9, pieces=[b""], gaps=[0], aslist=True), sh("fixed", 10)]},
            {"tls": True, "cap": 7, "bs": 3, "upfront": False, "schedule": [["c"], ["d", 0, 3], ["s"], ["d", 1, 2], ["c"], ["q"], ["s"], ["d", 1, 5]] * 4,
             "shapes": [sh("fixed", 0), sh("stream", 1), sh("stream", 2)]},
        ]

    def generate(self, S, index, tier):
        g = S.gen
        n = g.choice([1, 2, 2, 3, 3, 4, 5, 8])
        shapes = [gen_shape(g, i) for i in range(n)]
        s = S.sched
        sched = []
        for _ in range(s.randint(0, 60)):
            r = s.random()
            if r < 0.3:
                sched.append(["c"])
            elif r < 0.6:
                sched.append(["s"])
            elif r < 0.92:
                sched.append(["d", s.randint(0, 1), s.choice([1, 2, 5, 20, 1 << 20])])
            else:
                sched.append(["q"])
        return {"tls": g.random() < 0.3, "cap": g.choice([5, 16, 64, 4096]), "bs": g.choice([1, 7, 64, 4096]),
                "upfront": g.random() < 0.5, "schedule": sched, "shapes": shapes}

    def execute(self, plan):
        out = Outcome()
        tr = Trace(keep=False)
        abstract = hashlib.sha256()
        shapes = plan["shapes"]
        n = len(shapes)
        if n >= 3:
            out.probe("n>=3")
        for a, b in zip(shapes, shapes[1:]):
            if a["kind"] in ("stream", "nolen-empty") and b["kind"] in ("stream", "nolen-empty"):
                out.probe("stream-after-stream")
        if any(s["kind"] == "error" for s in shapes):
            out.probe("error-shape")
        if plan["tls"]:
            out.probe("tls")
        if any(s["kind"] == "empty" and s["pieces"] for s in shapes):
            out.probe("empty-item-with-length-0")
        if any(s.get("aslist") for s in shapes):
            out.probe("list-app")
        if any(s.get("retval") and s["kind"] == "stream" for s in shapes[:-1]):
            out.probe("generator-return-value")
        if any(s.get("declared") for s in shapes[:-1]):
            out.probe("bodyless-with-declared-length-then-another")
        if any((s.get("method") == "HEAD" or s["status"][:3] in ("204", "304")) and s["kind"] == "nolen-empty" for s in shapes[:-1]):
            out.probe("bodyless-without-length-then-another")
        if not plan["upfront"]:
            out.probe("progressive")
        app = PlanApp(shapes)
        with http_world(cap=max(plan["cap"], 70) if plan["tls"] else plan["cap"]) as net:
            duo = Duo(net, app, tls=plan["tls"], bs_c=plan["bs"], bs_s=plan["bs"], maxrec=max(4, plan["cap"] - 8))
            if not duo.connect():
                raise RuntimeError("harness: duo did not connect")
            pat, valet = duo.patron, duo.valet
            queued = [0]

            def queue_next():
                if queued[0] < n:
                    i = queued[0]
                    pat.request(method=shapes[i].get("method") or ("POST" if i % 2 else "GET"), path="/r%d" % i, body=(b"body%d" % i) if i % 2 and not shapes[i].get("method") else None)
                    queued[0] += 1

            if plan["upfront"]:
                while queued[0] < n:
                    queue_next()
            else:
                queue_next()

            def step(st):
                code = st[0]
                try:
                    if code == "c":
                        pat.serviceAll()
                    elif code == "s":
                        valet.serviceAll()
                    elif code == "q":
                        queue_next()
                    elif code == "d":
                        w = duo.client_sock() if st[1] == 0 else duo.server_sock()
                        if w is not None and w.txpipe is not None:
                            if w.txpipe.nflight > st[2]:
                                out.probe("partial-delivery")
                            w.txpipe.deliver(st[2])
                except Exception as ex:
                    import traceback
                    out.violate("exception", "%s raised %s" % ({"c": "Patron.serviceAll", "s": "Valet.serviceAll"}.get(code, code), type(ex).__name__),
                                "%r\n%s" % (ex, traceback.format_exc()[-700:]))
                    return False
                abstract.update(b"%d,%d;" % (len(pat.responses), sum(1 for r in valet.reps.values() if not r.ended)))
                out.steps += 1
                return True

            ok = True
            for st in plan["schedule"]:
                tr.add("st", st)
                if not step(st):
                    ok = False
                    break
            rounds = 0
            while ok and len(pat.responses) < n and rounds < 200 * n + 300:
                rounds += 1
                if len(pat.responses) >= queued[0]:
                    queue_next()
                for st in (["c"], ["d", 0, 1 << 20], ["s"], ["d", 1, 1 << 20]):
                    if not step(st):
                        ok = False
                        break
            if ok:
                for st in (["c"], ["d", 0, 1 << 20], ["s"], ["d", 1, 1 << 20], ["c"], ["s"]):
                    if not step(st):
                        ok = False
                        break
            if ok:
                self._judge(out, pat, valet, app, shapes, n, tr)
        out.digest = tr.digest()
        out.state_digest = abstract.hexdigest()[:16]
        out.nontrivial = n >= 2 and any(s["kind"] in ("stream", "nolen-empty") for s in shapes)
        return out

    def _judge(self, out, pat, valet, app, shapes, n, tr):
        got = list(pat.responses)
        tr.add("responses", [(r["status"], bytes(r["body"])) for r in got])
        if len(got) != n:
            out.violate("count", "received %s responses than requests" % ("fewer" if len(got) < n else "more"),
                        "got %d responses for %d requests (app saw %r); statuses %r; client rxbs %r"
                        % (len(got), n, [s[0] for s in app.seen], [r["status"] for r in got], bytes(pat.connector.rxbs)[:200]))
            return
        if [s[0] for s in app.seen] != list(range(n)):
            out.violate("server-order", "server saw requests out of order", "app saw %r" % ([s[0] for s in app.seen],))
            return
        for i, (r, sh) in enumerate(zip(got, shapes)):
            if r.get("errored"):
                out.violate("errored", "response marked errored", "response %d errored: %r" % (i, r.get("error")))
                return
            want_status = int(sh["status"].split()[0])
            if r["status"] != want_status:
                out.violate("status", "response status mismatch", "response %d status %r want %r" % (i, r["status"], want_status))
                return
            body = bytes(r["body"])
            if sh["kind"] == "error":
                if sh["title"].encode() not in body:
                    out.violate("match", "response not matched to its request", "response %d (error) body %r lacks %r" % (i, body, sh["title"]))
                    return
            else:
                want = b"".join(sh["pieces"])
                if body != want:
                    out.violate("body", "response body mismatch (%s)" % sh["kind"], "response %d (%s) body %r want %r" % (i, sh["kind"], body, want))
                    return
                tok = dict((k.lower(), v) for k, v in r["headers"].items()).get("x-tok")
                if tok != sh["headers"][0][1]:
                    out.violate("match", "response not matched to its request", "response %d carries token %r want %r" % (i, tok, sh["headers"][0][1]))
                    return
            req = r.get("request") or {}
            if req.get("path") != "/r%d" % i:
                out.violate("match", "response paired with wrong request record", "response %d paired with request path %r" % (i, req.get("path")))
                return
        if bytes(pat.connector.rxbs):
            out.violate("leftover", "bytes left after last response", "%r" % (bytes(pat.connector.rxbs)[:200],))
            return
        if pat.connector.cutoff or not valet.servant.ixes:
            out.violate("connection-lost", "persistent connection was dropped", "cutoff=%s ixes=%d" % (pat.connector.cutoff, len(valet.servant.ixes)))
            return
        out.probe("completed")


CHECK = C31()
