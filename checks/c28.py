"""C28 — idle timeouts drop only idle connections.

Real: Valet + Server / ServerTls(stub TLS) + Incomer(Tls) + Requestant + Responder + StoreTimer.
Simulated: sockets, scripted peers (slow partial request heads, Connection: close requests
answered by long streamed responses, keep-alive requests left idle), the store clock.
Oracle (safety only): every time the server closes a connection whose peer has not closed
and whose non-persistent response is not complete, no byte was sent or received on its
socket for at least the timeout; connections kept alive by HTTP persistence are never
closed by the timer.
"""
import hashlib
import ssl

from simkit.core import Outcome, Trace
from simkit.driver import Check
from netharn.http import http_world, HPORT
from netharn.duo import PlanApp
from substrate.net import SimSocket
from substrate.tls import StubContext, SimTlsSocket

U = 0.125


def peer_script(g, kind, i):
    if kind == "slowhead":
        return b"GET /r%d HTTP/1.1\r\nHost: x\r\nX-Pad: %s\r\n\r\n" % (i, b"p" * g.randint(0, 20))
    if kind == "close-stream":
        return b"GET /r%d HTTP/1.1\r\nHost: x\r\nConnection: close\r\n\r\n" % i
    if kind == "http10":
        return b"GET /r%d HTTP/1.0\r\nHost: x\r\n\r\n" % i
    if kind == "persist-idle":
        return b"GET /r%d HTTP/1.1\r\nHost: x\r\n\r\n" % i
    if kind == "http10-keepalive":
        return b"GET /r%d HTTP/1.0\r\nHost: x\r\nConnection: keep-alive\r\n\r\n" % i
    if kind == "http11-keepalive":
        return b"GET /r%d HTTP/1.1\r\nHost: x\r\nConnection: Keep-Alive\r\n\r\n" % i
    if kind == "persist-then-close":     # a kept-alive connection later asked to close: two requests on one connection
        return FIRST_KEEPALIVE + b"GET /r%d HTTP/1.1\r\nHost: x\r\nConnection: close\r\n\r\n" % i
    if kind == "post-slow-body":
        return b"POST /r%d HTTP/1.1\r\nHost: x\r\nConnection: close\r\nContent-Length: 12\r\n\r\nhello world!" % i
    raise ValueError(kind)


FIRST_KEEPALIVE = b"GET /first HTTP/1.1\r\nHost: x\r\n\r\n"
KINDS = ["persist-then-close", "slowhead", "close-stream", "http10", "persist-idle", "post-slow-body", "http10-keepalive", "http11-keepalive"]
# persistence by the HTTP rules (not by the server's own flag): HTTP/1.1 unless 'Connection: close', HTTP/1.0 only with 'Connection: keep-alive'
PERSISTENT = {"slowhead": True, "persist-idle": True, "http10-keepalive": True, "http11-keepalive": True,
              "close-stream": False, "http10": False, "post-slow-body": False, "persist-then-close": True}


class _View(object):
    """valet.reqs / valet.reps look-alike over a Porter's stewards."""

    def __init__(self, stewards, attr):
        self.stewards, self.attr = stewards, attr

    def get(self, ca):
        st = self.stewards.get(ca)
        return getattr(st, self.attr) if st is not None else None


class C28(Check):
    pid = "C28"
    level = "exploration"
    engine = "netsim.http"
    design_ref = "§6 C28"
    rule = ("a Valet (in a quarter of the runs a Porter; plain or TLS stub) with idle timeout T drawn from {0.5,1,2} and 1-3 scripted peers (dribbled request "
            "heads and bodies, Connection: close and HTTP/1.0 requests answered by long streamed responses with silent "
            "gaps, a pipe capacity drawn per run (with small pipes and large pieces every pass ends in a partial send, the peer reading 7 / 40 / all bytes at a time), keep-alive requests left idle), a seeded schedule of server service passes, clock advances (multiples "
            "of 1/8 s), peer sends of 1-n bytes, peer reads and peer closes; non-trivial = at least one connection was "
            "closed by the server; distinct = digest of per-step (open connections, clock)")
    components = {"real": ["ioflo.aio.http.serving.Valet/Requestant/Responder", "ioflo.aio.http.serving.Porter/Steward (a quarter of the runs)", "ioflo.aio.tcp.serving.Server/ServerTls/Incomer/IncomerTls",
                           "ioflo.aid.timing.StoreTimer", "ioflo.base.storing.Store"],
                  "stub": ["socket module", "TLS record layer / handshake", "peers", "WSGI app (plan driven)", "store clock advanced by the simulator"]}
    assumptions = ["'activity' is a byte accepted by send or returned by recv on the connection's socket (TLS: record bytes)",
                   "safety only: nothing requires an idle connection to be dropped promptly"]
    required_probes = ["timer-close", "response-complete-close", "persisted-survived", "tls", "plain", "active-beyond-timeout", "partial-send-beyond-timeout", "http10-keepalive-survived", "porter"]
    quick_runs = 8000
    thorough_runs = 400000
    shrink_fields = ["schedule", "peers"]

    def directed(self):
        long_stream = {"kind": "stream", "status": "200 OK", "pieces": [b"0123456789"] * 8, "gaps": [1] * 8, "headers": [], "pregap": 0}
        sched = []
        for k in range(30):
            sched += [["p", 0, 200], ["s"], ["t", 2], ["pr", 0]]
        d = []
        for tls in (False, True):
            d.append({"tls": tls, "timeout": 1.0, "peers": [{"kind": "close-stream"}], "shapes": [long_stream], "schedule": sched})
            d.append({"tls": tls, "timeout": 0.5, "peers": [{"kind": "persist-idle"}, {"kind": "slowhead"}],
                      "shapes": [{"kind": "fixed", "status": "200 OK", "pieces": [b"ok"], "gaps": [0], "headers": [], "pregap": 0}] * 2,
                      "schedule": [["p", 0, 200], ["p", 1, 5], ["s"], ["pr", 0], ["s"]] + [["t", 3], ["s"], ["p", 1, 2]] * 12})
        return d

    def generate(self, S, index, tier):
        g = S.gen
        npeers = g.randint(1, 3)
        peers = [{"kind": g.choice(KINDS)} for _ in range(npeers)]
        for sp in peers:
            sp["slow"] = g.random() < 0.25
        shapes = []
        for i in range(npeers):
            n = g.randint(1, 10)
            big = g.random() < 0.3      # pieces larger than the pipe: every server pass ends in a partial send
            shapes.append({"kind": g.choice(["stream", "stream", "fixed"]), "status": "200 OK",
                           "pieces": [b"%d:" % i + b"x" * (g.randint(100, 600) if big else g.randint(1, 12)) for _ in range(n)],
                           "gaps": [g.choice([0, 1, 1, 3, 8]) for _ in range(n)], "headers": [], "pregap": g.choice([0, 2, 6])})
        s = S.sched
        sched = []
        for _ in range(s.randint(10, 120)):
            r = s.random()
            if r < 0.35:
                sched.append(["s"])
            elif r < 0.55:
                sched.append(["t", s.choice([1, 1, 2, 3, 5, 9])])
            elif r < 0.80:
                sched.append(["p", s.randint(0, npeers - 1), s.choice([1, 2, 5, 30, 300])])
            elif r < 0.95:
                sched.append(["pr", s.randint(0, npeers - 1), s.choice([1 << 16, 1 << 16, 40, 7])])
            else:
                sched.append(["pc", s.randint(0, npeers - 1)])
        plan = {"tls": g.random() < 0.5, "timeout": g.choice([0.5, 1.0, 2.0]), "peers": peers, "shapes": shapes, "schedule": sched,
                "cap": g.choice([1 << 16, 1 << 16, 96, 200])}
        # the other HTTP server of the module (Porter: one Steward per connection, echoes the request) in place of the Valet
        # (side generator: all other plans stay as they were)
        import random as _r
        sg = _r.Random(hashlib.sha256(repr((g.getstate(), s.getstate())).encode()).hexdigest())
        if sg.random() < 0.25:
            plan["server"] = "porter"
        return plan

    def execute(self, plan):
        from ioflo.aio.http import serving
        from ioflo.base.storing import Store
        out = Outcome()
        tr = Trace(keep=False)
        abstract = hashlib.sha256()
        tls = plan["tls"]
        T = plan["timeout"]
        out.probe("tls" if tls else "plain")
        g_dummy = __import__("random").Random(1)
        cap = plan.get("cap", 1 << 16)
        with http_world(cap=cap) as net:
            store = Store(stamp=0.0)
            ctx = StubContext(min(64, max(4, cap - 16)))
            app = PlanApp(plan["shapes"])
            kw = dict(store=store, app=app, ha=("", HPORT), bufsize=4096, timeout=T)
            if tls:
                kw.update(scheme="https", context=ctx)
            porter = plan.get("server") == "porter"
            if porter:
                out.probe("porter")
                del kw["app"]
                valet = serving.Porter(**kw)
                if not valet.servant.reopen():
                    raise RuntimeError("harness: porter did not open")
                valet.reqs = _View(valet.stewards, "requestant")
                valet.reps = _View(valet.stewards, "responder")
            else:
                valet = serving.Valet(**kw)
                if not valet.open():
                    raise RuntimeError("harness: valet did not open")
            peers = []
            for i, spec in enumerate(plan["peers"]):
                raw = SimSocket(net, "peer")
                far = SimTlsSocket(raw, False, ctx) if tls else raw
                peers.append({"raw": raw, "far": far, "script": peer_script(g_dummy, spec["kind"], i), "off": 0, "kind": spec["kind"],
                              "closed_by_peer": False, "conn": False, "got": bytearray(), "slow": bool(spec.get("slow"))})
            closes = []
            orig_close = valet.closeConnection

            def persistent_now(ca):
                p = next((p for p in peers if p["raw"].laddr == ca), None)
                if p is None or not PERSISTENT.get(p["kind"], False):
                    return False
                if p["kind"] == "persist-then-close":      # persistent until the first byte of its second request has been sent
                    return p["off"] <= len(FIRST_KEEPALIVE)
                return True

            def spy(ca):
                ix = valet.servant.ixes.get(ca)
                rq = valet.reqs.get(ca)
                rp = valet.reps.get(ca)
                if ix is not None and ix.cs is not None:
                    sock = getattr(ix.cs, "sock", ix.cs)
                    closes.append({"ca": ca, "now": store.stamp, "last": sock.last_activity, "cutoff": bool(ix.cutoff),
                                   # kept alive by HTTP persistence = a complete request that asks for it has been received
                                   "persisted": bool(rq is not None and rq.ended and persistent_now(ca)),
                                   "persisted_flag": bool(rq.persisted) if rq is not None else False,
                                   "errored": bool(rq.errored) if rq is not None else False,
                                   "resp_ended": bool(rp.ended) if rp is not None else None,
                                   "has_req": bool(rq is not None and rq.ended),
                                   "peer_closed": sock.peer is None or sock.peer.closed})
                return orig_close(ca)
            valet.closeConnection = spy

            def pump(p):
                if p["raw"].closed:
                    return
                if not p["conn"]:
                    try:
                        p["conn"] = p["raw"].connect_ex(("127.0.0.1", HPORT)) == 0
                    except OSError:
                        pass
                elif tls and not p["far"].done:
                    try:
                        p["far"].do_handshake()
                    except (ssl.SSLWantReadError, ssl.SSLWantWriteError):
                        pass
                    except OSError:
                        pass

            def step(st):
                code = st[0]
                if code == "s":
                    for p in peers:
                        if not p["slow"]:      # a slow peer connects / handshakes only on its own steps: its TLS handshake is spread over time
                            pump(p)
                    net.deliver_all()
                    try:
                        valet.serviceAll()
                    except OSError as ex:
                        tr.add("oserror", ex.errno)   # e.g. EPIPE towards a vanished peer propagates by C25; the server is ended
                        return False
                    except Exception as ex:
                        import traceback
                        out.violate("exception", "Valet.serviceAll raised %s" % type(ex).__name__, "%r\n%s" % (ex, traceback.format_exc()[-700:]))
                        return False
                    net.deliver_all()
                elif code == "t":
                    d = st[1] * U
                    store.advanceStamp(d)
                    net.now = store.stamp
                    out.sim_time += d
                elif code == "p":
                    p = peers[st[1] % len(peers)]
                    pump(p)
                    if p["conn"] and (not tls or p["far"].done) and not p["raw"].closed and p["off"] < len(p["script"]):
                        chunk = p["script"][p["off"]:p["off"] + st[2]]
                        try:
                            p["off"] += p["far"].send(chunk)
                        except OSError:
                            pass
                    net.deliver_all()
                elif code == "pr":
                    p = peers[st[1] % len(peers)]
                    if p["conn"] and not p["raw"].closed and (not tls or p["far"].done):
                        try:
                            p["got"].extend(p["far"].recv(st[2] if len(st) > 2 else 1 << 16))
                        except OSError:
                            pass
                    net.deliver_all()
                elif code == "pc":
                    p = peers[st[1] % len(peers)]
                    if not p["raw"].closed:
                        p["raw"].close()
                        p["closed_by_peer"] = True
                    net.deliver_all()
                return True

            judged = set()
            for st in plan["schedule"]:
                tr.add("st", st)
                nclose = len(closes)
                if not step(st):
                    break
                out.steps += 1
                abstract.update(b"%d,%d;" % (len(valet.servant.ixes), int(store.stamp * 8)))
                # below the HTTP layer: a server-side socket closed by the server that the HTTP layer never closed (a pending TLS
                # connection dropped by the transport) must have been idle for the timeout as well
                spied = set(c["ca"] for c in closes)
                for sk in net.socks:
                    if sk.role == "srv" and sk.closed and sk.raddr is not None and id(sk) not in judged and sk.kind != "udp" and sk.state != "listening":
                        judged.add(id(sk))
                        if sk.raddr in spied or sk.peer is None or sk.peer.closed or sk.got_rst:
                            continue
                        idle = store.stamp - (sk.last_activity if sk.last_activity is not None else sk.created)
                        if idle < T:
                            out.violate("early-drop", "%s connection dropped while active" % ("tls" if tls else "plain"),
                                        "server-side socket of peer %r closed below the HTTP layer at t=%s although its last byte moved at t=%s (idle %s < timeout %s)"
                                        % (sk.raddr, store.stamp, sk.last_activity, idle, T))
                        else:
                            out.probe("transport-timer-close")
                for c in closes[nclose:]:
                    tr.add("close", c["ca"][1], c["now"], c["last"], c["cutoff"], c["persisted"], c["resp_ended"])
                    if c["cutoff"] or c["peer_closed"] or c["errored"]:
                        out.probe("peer-close")
                        continue
                    if c["resp_ended"] and not c["persisted"]:
                        out.probe("response-complete-close")
                        continue
                    idle = c["now"] - (c["last"] if c["last"] is not None else 0.0)
                    kind = "tls" if tls else "plain"
                    if c["persisted"]:
                        out.violate("persisted-dropped", "%s persisted connection closed by the server" % kind,
                                    "connection %r persisted by HTTP keep-alive was closed at t=%s (idle %s, timeout %s)" % (c["ca"], c["now"], idle, T))
                    elif idle < T:
                        out.violate("early-drop", "%s connection dropped while active" % kind,
                                    "connection %r closed at t=%s although its last byte moved at t=%s (idle %s < timeout %s); request complete=%s response ended=%s"
                                    % (c["ca"], c["now"], c["last"], idle, T, c["has_req"], c["resp_ended"]))
                    else:
                        out.probe("timer-close")
                if out.violations:
                    break
                # an active connection older than the timeout that is still open: the interesting case was reached
                for ca, ix in valet.servant.ixes.items():
                    if ix.cs is not None:
                        sock = getattr(ix.cs, "sock", ix.cs)
                        if sock.last_activity is not None and store.stamp - sock.created >= T and store.stamp - sock.last_activity < T:
                            out.probe("active-beyond-timeout")
                            if cap < 1000 and ix.txes:
                                out.probe("partial-send-beyond-timeout")
                        rq = valet.reqs.get(ca)
                        pk = next((p["kind"] for p in peers if p["raw"].laddr == ca), None)
                        if rq is not None and rq.ended and persistent_now(ca) and store.stamp - sock.last_activity >= T:
                            out.probe("persisted-survived")
                            if pk == "http10-keepalive":
                                out.probe("http10-keepalive-survived")
        out.digest = tr.digest()
        out.state_digest = abstract.hexdigest()[:16]
        out.nontrivial = bool(closes)
        return out


CHECK = C28()
