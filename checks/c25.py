"""C25 — transport errors are classified: connection loss cuts off, would-block is neutral, others raise.

Fault enumeration: the product (transport class x socket operation x occurrence index x
errno / TLS error x direct-or-service call) is enumerated completely every tier; the seed
varies the surrounding exchange (message sizes, pipe size, how much traffic precedes the
fault).  Real: Client, ClientTls, Server/Incomer, ServerTls/IncomerTls, UdpStack + SocketUdpNb.
Stub: socket module, TLS record layer, far end.
"""
import errno
import hashlib
import ssl

from simkit.core import Outcome, Trace
from simkit.driver import Check
from netharn.world import world
from netharn.tcp import make_endpoint, PORT
from substrate.net import SimSocket
from substrate.tls import StubContext, SimTlsSocket

LOSS = [errno.ECONNRESET, errno.ENETRESET, errno.ENETUNREACH, errno.EHOSTUNREACH, errno.ENETDOWN,
        errno.EHOSTDOWN, errno.ETIMEDOUT, errno.ECONNREFUSED]
OTHER = [errno.EBADF, errno.ENOTCONN, errno.EINVAL, errno.EPIPE, errno.EIO, errno.ENOMEM]
EN = errno.errorcode


def _cases():
    cases = []
    for t in ("client", "incomer", "clienttls", "incomertls"):
        role = "cli" if "client" in t else "srv"
        tls = "tls" in t
        for op in ("send", "recv"):
            site = ("tls_%s@%s" if tls else "%s@%s") % (op, role)
            for occ in (0, 1, 2):
                for drive in ("direct", "service"):
                    for e in LOSS:
                        cases.append({"t": t, "site": site, "occ": occ, "kind": "errno", "arg": e, "cls": "loss", "drive": drive})
                    for e in OTHER:
                        cases.append({"t": t, "site": site, "occ": occ, "kind": "errno", "arg": e, "cls": "other", "drive": drive})
                    if tls:
                        cases.append({"t": t, "site": site, "occ": occ, "kind": "ssleof", "arg": None, "cls": "loss", "drive": drive})
                        cases.append({"t": t, "site": site, "occ": occ, "kind": "want_read", "arg": None, "cls": "block", "drive": drive})
                        cases.append({"t": t, "site": site, "occ": occ, "kind": "want_write", "arg": None, "cls": "block", "drive": drive})
                    else:
                        cases.append({"t": t, "site": site, "occ": occ, "kind": "eagain", "arg": None, "cls": "block", "drive": drive})
    for t in ("clienttls", "incomertls"):
        role = "cli" if "client" in t else "srv"
        for occ in (0, 1, 2):
            for e in LOSS:
                cases.append({"t": t, "site": "handshake@" + role, "occ": occ, "kind": "errno", "arg": e, "cls": "loss", "drive": "handshake"})
            for k in ("eof", "ssleof"):
                cases.append({"t": t, "site": "handshake@" + role, "occ": occ, "kind": k, "arg": None, "cls": "loss", "drive": "handshake"})
            for e in (errno.EBADF, errno.EINVAL):
                cases.append({"t": t, "site": "handshake@" + role, "occ": occ, "kind": "errno", "arg": e, "cls": "other", "drive": "handshake"})
            cases.append({"t": t, "site": "handshake@" + role, "occ": occ, "kind": "sslerror", "arg": None, "cls": "other", "drive": "handshake"})
            for k in ("want_read", "want_write"):
                cases.append({"t": t, "site": "handshake@" + role, "occ": occ, "kind": k, "arg": None, "cls": "block", "drive": "handshake"})
    for t in ("client", "clienttls"):
        for occ in (0, 1):
            for e in LOSS:
                cases.append({"t": t, "site": "connect@cli", "occ": occ, "kind": "errno", "arg": e, "cls": "loss", "drive": "connect"})
    for op in ("sendto", "recvfrom"):
        for occ in (0, 1, 2):
            for e in LOSS:
                cases.append({"t": "udpstack", "site": op + "@udp", "occ": occ, "kind": "errno", "arg": e, "cls": "loss", "drive": "stack"})
            for e in (errno.EBADF, errno.EINVAL, errno.EMSGSIZE):
                cases.append({"t": "udpstack", "site": op + "@udp", "occ": occ, "kind": "errno", "arg": e, "cls": "other", "drive": "stack"})
        if op == "recvfrom":
            cases.append({"t": "udpstack", "site": op + "@udp", "occ": 0, "kind": "eagain", "arg": None, "cls": "block", "drive": "stack"})
        # two transient errors in a row (the second one meets whatever the stack does right after the first)
        for occ in (0, 1):
            for i, e in enumerate(LOSS):
                cases.append({"t": "udpstack", "site": op + "@udp", "occ": occ, "kind": "errno", "arg": e, "arg2": LOSS[(i + occ) % len(LOSS)], "cls": "loss", "drive": "stack"})
    return cases


CASES = _cases()


class FakePkt(object):
    def __init__(self, b):
        self.packed = b
        self.size = len(b)

    def pack(self):
        pass


class C25(Check):
    pid = "C25"
    level = "fault_enumeration"
    engine = "netsim.tcp"
    design_ref = "§6 C25"
    rule = ("complete enumeration of (transport class in Client/ClientTls/Incomer/IncomerTls/UdpStack) x (operation: "
            "connect, send, recv, handshake, sendto, recvfrom) x (occurrence 0..2) x (every errno of the connection-loss "
            "set, TLS EOF, would-block, a sample of unrelated errnos) x (direct call / service loop); the seed varies "
            "message sizes, pipe size and the traffic that precedes the fault; every case is non-trivial (a fault fires "
            "in it); for the datagram stack also two transient errors in a row on sendto / recvfrom; the console verbosity "
            "(mute / concise / profuse) is drawn per run and the socket double answers getpeername() with ENOTCONN once it has reported a loss; distinct = distinct (case, abstract result)")
    components = {"real": ["ioflo.aio.tcp.clienting.Client/ClientTls", "ioflo.aio.tcp.serving.Server/ServerTls/Incomer/IncomerTls",
                           "ioflo.aio.udp.udping.SocketUdpNb", "ioflo.aio.proto.stacking.UdpStack (GramStack tx/rx service)"],
                  "stub": ["socket module", "TLS record layer / handshake (stub)", "far end", "packets (pre-packed bytes)"]}
    assumptions = ["errors are injected at the socket API; which errnos a real kernel produces where is not modelled",
                   "connect errors are injected as connect_ex result codes (connect_ex does not raise them)"]
    required_probes = ["loss", "block", "other", "handshake", "connect", "stack", "udp-once-variant", "console-verbosity-4"]
    quick_runs = len(CASES) * 3
    thorough_runs = len(CASES) * 200
    shrink_fields = ["pre"]

    def directed(self):
        return []

    def generate(self, S, index, tier):
        g = S.gen
        case = dict(CASES[index % len(CASES)])
        return {"case": case, "cap": g.choice([4, 16, 64]), "bs": g.choice([2, 8, 64]), "maxrec": g.choice([2, 8, 64]),
                "msglen": g.choice([1, 3, 9]), "pre": [g.choice(["tx", "rx", "dl", "ps"]) for _ in range(g.randint(0, 4))],
                "udp_once": g.random() < 0.5,
                # console verbosity: the diagnostic branches next to the error handling are real code as well
                "verb": g.choice([0, 2, 4])}

    # ------------------------------------------------------------------
    def execute(self, plan):
        out = Outcome()
        tr = Trace(keep=False)
        c = plan["case"]
        fault = [c["site"], c["occ"], c["kind"]] + ([c["arg"]] if c["arg"] is not None else [])
        label = "%s %s %s%s" % (c["t"], c["site"], c["kind"], ("=" + EN.get(c["arg"], str(c["arg"]))) if c["arg"] is not None else "")
        res = []
        faults = [fault]
        if c.get("arg2") is not None:
            faults.append([c["site"], c["occ"] + 1, c["kind"], c["arg2"]])
            label += "+" + EN.get(c["arg2"], str(c["arg2"]))
            out.probe("two-transient-errors-in-a-row")
        if plan.get("verb"):
            out.probe("console-verbosity-%d" % plan["verb"])
        with world(faults=faults, out=out, cap=plan["cap"], trace=tr, verbosity=plan.get("verb", 0)) as net:
            if c["drive"] == "stack":
                self._udp(plan, c, net, out, tr, label, res)
            elif c["drive"] == "handshake":
                self._handshake(plan, c, net, out, tr, label, res)
            elif c["drive"] == "connect":
                self._connect(plan, c, net, out, tr, label, res)
            else:
                self._data(plan, c, net, out, tr, label, res)
            fired = bool(net.faults.fired)
        out.probe(c["cls"])
        if c["drive"] in ("handshake", "connect", "stack"):
            out.probe(c["drive"])
        if not fired:
            out.probe("fault-not-reached")
        tr.add("res", res)
        out.digest = tr.digest()
        out.state_digest = hashlib.sha256(repr((label, c["occ"], c["drive"], res)).encode()).hexdigest()[:16]
        out.nontrivial = fired
        return out

    # data-phase faults on an established connection ---------------------
    def _data(self, plan, c, net, out, tr, label, res):
        t = c["t"]
        ep = make_endpoint(net, t, bs=plan["bs"], maxrec=plan["maxrec"], wlog=False)
        if ep is None:
            raise RuntimeError("harness: could not establish %s" % t)
        sut = ep.sut
        ml = plan["msglen"]
        msgs = [bytes([65 + i]) * ml for i in range(6)]
        for m in msgs:
            sut.tx(m)
        ep.peer.send(b"p" * 5)
        net.deliver_all()
        is_send = "send" in c["site"]

        def observe(name, fn):
            """Runs one SUT call; returns True if the run should stop."""
            nf = len(net.faults.fired)
            cut0 = sut.cutoff
            conn0 = getattr(sut, "connected", True)
            exc = None
            ret = None
            try:
                ret = fn()
            except Exception as ex:
                exc = ex
            hit = len(net.faults.fired) > nf
            res.append((name, type(exc).__name__ if exc else None, hit))
            if not hit:
                if exc is not None:
                    out.violate("exception", "%s unfaulted %s raised %s" % (t, name, type(exc).__name__), repr(exc))
                    return True
                return False
            sig = "%s via %s" % (label, name)
            if c["cls"] == "loss":
                if exc is not None:
                    out.violate("loss-raised", sig, "connection-loss error propagated: %r" % (exc,))
                elif not sut.cutoff:
                    out.violate("loss-no-cutoff", sig, "cutoff not set after connection-loss error")
                elif name == "receive" and ret != b"":
                    out.violate("loss-data", sig, "receive returned %r instead of empty" % (ret,))
                elif name == "send" and ret != 0:
                    out.violate("loss-data", sig, "send returned %r instead of 0" % (ret,))
            elif c["cls"] == "block":
                if exc is not None:
                    out.violate("block-raised", sig, "would-block propagated: %r" % (exc,))
                elif sut.cutoff != cut0 or getattr(sut, "connected", True) != conn0:
                    out.violate("block-state", sig, "would-block changed connection state")
                elif name == "receive" and ret is not None:
                    out.violate("block-data", sig, "receive returned %r on would-block" % (ret,))
                elif name == "send" and ret != 0:
                    out.violate("block-data", sig, "send returned %r on would-block" % (ret,))
            else:
                if exc is None:
                    out.violate("other-swallowed", sig, "unrelated error did not propagate (cutoff=%s ret=%r)" % (sut.cutoff, ret))
                elif not isinstance(exc, OSError) or exc.errno != c["arg"]:
                    out.violate("other-changed", sig, "a different exception propagated: %r" % (exc,))
            return True

        for st in plan["pre"]:   # traffic before the fault (may itself reach the fault site)
            if st == "dl":
                net.deliver_all()
            elif st == "ps":
                try:
                    ep.peer.send(b"r" * 3)
                except OSError:
                    pass
            elif st == "tx":
                if observe("serviceTxes", sut.serviceTxes):
                    return
            elif st == "rx":
                if observe("serviceReceives", sut.serviceReceives):
                    return
        for i in range(12):
            net.deliver_all()
            try:
                ep.peer.send(b"s" * 2)
                ep.peer.recv(1 << 16)
            except OSError:
                pass
            net.deliver_all()
            if c["drive"] == "direct":
                stop = observe("send", lambda: sut.send(b"D" * ml)) if is_send else observe("receive", sut.receive)
            else:
                sut.tx(b"x" * ml)
                stop = observe("serviceTxes", sut.serviceTxes) if is_send else observe("serviceReceives", sut.serviceReceives)
            if stop:
                return

    # TLS handshake faults ---------------------------------------------------
    def _handshake(self, plan, c, net, out, tr, label, res):
        from ioflo.aio.tcp import clienting, serving
        t = c["t"]
        ctx = StubContext(plan["maxrec"])
        if t == "clienttls":
            lst = SimSocket(net, "peer")
            lst.bind(("0.0.0.0", PORT))
            lst.listen(5)
            cl = clienting.ClientTls(context=ctx, ha=("127.0.0.1", PORT), bufsize=plan["bs"])
            cl.reopen()
            far = None
            for i in range(12):
                nf = len(net.faults.fired)
                exc = None
                try:
                    cl.serviceConnect()
                except Exception as ex:
                    exc = ex
                hit = len(net.faults.fired) > nf
                res.append(("serviceConnect", type(exc).__name__ if exc else None, hit))
                if hit:
                    self._judge_hs(c, out, label, exc, connected=cl.connected, cutoff=cl.cutoff, closed=cl.cs is None)
                    return
                if exc is not None:
                    out.violate("exception", "%s unfaulted serviceConnect raised %s" % (t, type(exc).__name__), repr(exc))
                    return
                net.deliver_all()
                if far is None:
                    try:
                        s, ca = lst.accept()
                        far = SimTlsSocket(s, True, ctx)
                    except OSError:
                        pass
                if far is not None:
                    try:
                        far.do_handshake()
                    except (ssl.SSLWantReadError, ssl.SSLWantWriteError):
                        pass
                net.deliver_all()
            return
        srv = serving.ServerTls(context=ctx, ha=("", PORT), bufsize=plan["bs"])
        srv.reopen()
        raws = [SimSocket(net, "peer"), SimSocket(net, "peer")]
        fars = [SimTlsSocket(r, False, ctx) for r in raws]
        conn = [False, False]
        for i in range(14):
            for k in range(2):
                if not conn[k]:
                    conn[k] = raws[k].connect_ex(("127.0.0.1", PORT)) == 0
                else:
                    try:
                        fars[k].do_handshake()
                    except (ssl.SSLWantReadError, ssl.SSLWantWriteError):
                        pass
                    except OSError:
                        pass
            net.deliver_all()
            nf = len(net.faults.fired)
            exc = None
            try:
                srv.serviceConnects()
            except Exception as ex:
                exc = ex
            hit = len(net.faults.fired) > nf
            res.append(("serviceConnects", type(exc).__name__ if exc else None, hit))
            if hit:
                self._judge_hs(c, out, label, exc, connected=None, cutoff=None, closed=None)
                if exc is None and c["cls"] in ("loss", "block"):
                    # the other connection must still complete
                    for j in range(10):
                        for k in range(2):
                            try:
                                fars[k].do_handshake()
                            except OSError:
                                pass
                        net.deliver_all()
                        try:
                            srv.serviceConnects()
                        except Exception as ex:
                            out.violate("loss-raised", "%s later serviceConnects" % label, "after a handshake loss the server raised %r" % (ex,))
                            return
                    want = 2 if c["cls"] == "block" else 1
                    if len(srv.ixes) < want:
                        out.violate("hs-collateral", label, "only %d of the connections completed their handshake (want >= %d)" % (len(srv.ixes), want))
                return
            if exc is not None:
                out.violate("exception", "%s unfaulted serviceConnects raised %s" % (t, type(exc).__name__), repr(exc))
                return
            net.deliver_all()

    def _judge_hs(self, c, out, label, exc, connected, cutoff, closed):
        if c["cls"] == "loss":
            if exc is not None:
                out.violate("loss-raised", label, "connection loss during TLS handshake propagated: %r" % (exc,))
            elif connected:
                out.violate("loss-connected", label, "reports connected after handshake loss")
            elif cutoff is False:
                out.violate("loss-no-cutoff", label, "cutoff not set after a connection loss during the TLS handshake")
        elif c["cls"] == "block":
            if exc is not None:
                out.violate("block-raised", label, "want-read/write during handshake propagated: %r" % (exc,))
        else:
            if exc is None:
                out.violate("other-swallowed", label, "unrelated handshake error did not propagate")

    # connect result codes -----------------------------------------------------
    def _connect(self, plan, c, net, out, tr, label, res):
        from ioflo.aio.tcp import clienting
        lst = SimSocket(net, "peer")
        lst.bind(("0.0.0.0", PORT))
        lst.listen(5)
        kw = dict(ha=("127.0.0.1", PORT), bufsize=plan["bs"])
        cl = clienting.Client(**kw) if c["t"] == "client" else clienting.ClientTls(context=StubContext(8), **kw)
        cl.reopen()
        if c["occ"] == 1:   # first attempt is refused, the second one fails with the injected code
            net.faults.table[("connect@cli", 0)] = ("refuse", None)
        for i in range(8):
            exc = None
            try:
                r = cl.serviceConnect()
            except Exception as ex:
                exc = ex
            res.append(("serviceConnect", type(exc).__name__ if exc else None))
            if exc is not None:
                out.violate("loss-raised", label, "connect failure propagated: %r" % (exc,))
                return
            if any(f[2] == "errno" for f in net.faults.fired) and cl.connected and i < 2:
                out.violate("loss-connected", label, "connected although connect_ex failed")
                return

    # datagram stack -----------------------------------------------------------
    def _udp(self, plan, c, net, out, tr, label, res):
        from ioflo.aio.proto import stacking
        st = stacking.UdpStack(ha=("127.0.0.1", 7000))
        far = SimSocket(net, "peer", "udp")
        far.bind(("127.0.0.1", 7001))
        dest = ("127.0.0.1", 7001)
        pk = [bytes([97 + i]) * plan["msglen"] for i in range(4)]
        for p in pk:
            st.transmit(FakePkt(p), dest)
        is_send = c["site"].startswith("sendto")
        for i in range(5):
            far.sendto(b"in%d" % i, ("127.0.0.1", 7000))
        net.deliver_udp_all()
        once = bool(plan.get("udp_once")) and is_send     # the one-packet-per-call entry point of the same stack
        name = ("serviceTxPktsOnce" if once else "serviceTxPkts") if is_send else "serviceReceives"
        if once:
            out.probe("udp-once-variant")
        for i in range(12 if once else 6):
            nf = len(net.faults.fired)
            exc = None
            try:
                ((st.serviceTxPktsOnce if once else st.serviceTxPkts) if is_send else st.serviceReceivesOnce)()
            except Exception as ex:
                exc = ex
            hit = len(net.faults.fired) > nf
            res.append((name, type(exc).__name__ if exc else None, hit))
            if hit:
                if c["cls"] in ("loss", "block"):
                    if exc is not None:
                        out.violate("transient-fatal", "%s via %s" % (label.split("+")[0], name), "transient destination error was fatal (%s): %r" % (label, exc,))
                        return
                else:
                    if exc is None:
                        out.violate("other-swallowed", "%s via %s" % (label, name), "unrelated error did not propagate")
                    return
            elif exc is not None:
                out.violate("exception", "udpstack unfaulted %s raised %s" % (name, type(exc).__name__), repr(exc))
                return
            if not is_send:
                continue
        if is_send and c["cls"] == "loss":
            sent = [d for (_sid, _dst, d) in net.sent_dgrams if _dst == dest]
            if sorted(sent) != sorted(pk):
                out.violate("transient-lost", "%s retry" % label, "after the transient error cleared the datagrams sent were %r, queued %r" % (sent, pk))


CHECK = C25()
