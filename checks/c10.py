"""C10 — a conditional auxiliary suspends the frames below its main frame."""
from checks.flocommon import FloCheck
from checks.floinv import check_suspension, check_bracketing
from flosim.gen import cfg_with


class C10(FloCheck):
    pid = "C10"
    design_ref = "§6 C10"
    cfg = cfg_with(p_susp_sibling=0.2, depth=4, p_go_early=0.3, p_go_me_parent=0.3, nframes=(2, 6), p_child=0.75, naux=(1, 2), p_caux=0.5, p_aux=0.05, p_done=0.7, p_go=0.6, p_bid=0.1, p_env=0.95, p_done_named=0.15)
    rule = ("generated programs with conditional auxiliaries at different depths, conditions toggled by the environment history at "
            "drawn ticks, auxiliaries that complete immediately / later / never ('done' in their last frame or not at all), and "
            "transitions that leave the main frame; direct invariant: no recur action of a frame below the main frame runs in "
            "a framer run that ends suspended; everything else (entered once, runs every tick regardless of conditions, later "
            "clauses skipped, resumes the same tick without re-entry, exited with its main frame) by the reference interpreter; "
            "non-trivial = a suspension happened; distinct = digest of per-run (status, active outline)")
    assumptions = ["the order between a frame's own exit actions and the exit of its running conditional aux is taken from the implementation (statement leaves it open)"]
    directed_files = ("flo-done-verb-in-exit-of-cond-aux-frame", "flo-overlapping-suspensions", "flo-cond-aux-ended-from-outside-not-restarted")
    required_probes = ["suspended", "aux-completed-and-resumed", "aux-immediate", "main-exited-while-suspended"]

    def invariants(self, plan, res, impl, out):
        check_suspension(plan, impl, out)
        if not out.violations:
            check_bracketing(plan, impl, out)

    def probes(self, plan, res, impl, out):
        from checks.flocommon import outline_of
        last = {}
        frs = dict((f["name"], f) for f in plan["program"]["framers"])
        for e in impl:
            if e[1] == "sent" and e[5] and e[5][0]:
                full = outline_of(frs[e[2]], e[5][0])
                susp = len(e[5][1]) < len(full)
                prev = last.get(e[2])
                if susp:
                    out.probe("suspended")
                    out.nontrivial = True
                if prev and prev[1] and not susp and prev[0] == e[5][0] and e[5][3] > 0:
                    out.probe("aux-completed-and-resumed")
                if prev and prev[1] and prev[0] != e[5][0]:
                    out.probe("main-exited-while-suspended")
                last[e[2]] = (e[5][0], susp)
            elif e[1] == "sent" and e[5]:
                prev = last.get(e[2])
                if prev and prev[1]:
                    out.probe("main-exited-while-suspended")
                last[e[2]] = (None, False)
        # an aux entered and exited within one tick without suspension
        ent = {}
        for e in impl:
            if e[1] == "rec" and e[3].startswith("ax"):
                if e[5] == "enter":
                    ent[e[3]] = e[0]
                elif e[5] == "exit" and ent.get(e[3]) == e[0]:
                    out.probe("aux-immediate")


CHECK = C10()
