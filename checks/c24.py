"""C24 — stream transports deliver queued bytes exactly once and in order.

Real: Client, Incomer (via Server), ClientTls / IncomerTls (over the TLS stub), serial
Driver + DeviceNb.send/receive, WireLog(buffify).  Simulated: socket / os module, the far
end, delivery.  Faults: partial sends of every length incl. 0, would-block on send and
recv, short reads, TLS want-read / want-write, tiny pipes; the interleaving of queueing,
serviceTxes, serviceReceives, delivery and the far end's reads / writes is the schedule.
"""
import hashlib

from simkit.core import Outcome, Trace
from simkit.driver import Check
from netharn.world import world
from netharn.tcp import make_endpoint, parse_wirelog

TRANSPORTS = ["client", "incomer", "clienttls", "incomertls", "serial"]


def _msg(g, i, maxlen):
    n = g.choice([0, 1, 2, 3, g.randint(0, maxlen), g.randint(0, maxlen)])
    # every byte value is unique-ish per message so reordering / duplication is visible
    return bytes(((i * 37 + k * 7 + g.randint(0, 3)) % 251) + 1 for k in range(n))


class C24(Check):
    pid = "C24"
    level = "exploration"
    engine = "netsim.tcp"
    design_ref = "§6 C24"
    rule = ("one transport (TCP client, server-side incomer, their TLS variants over the stub, serial driver) with 1-6 "
            "queued messages of 0-40 bytes, more queued while sending, a seeded schedule of queue / serviceTxes / "
            "serviceReceives / deliver / far-end read and write steps and a seeded fault table (partial send of any "
            "length incl. 0, EAGAIN on send and recv, short recv, TLS want-read/write); non-trivial = at least one "
            "partial send or injected fault fired; distinct = digest of the per-step abstract state "
            "(queue length, bytes accepted, bytes in flight>0, rx length)")
    components = {"real": ["ioflo.aio.tcp.clienting.Client/ClientTls", "ioflo.aio.tcp.serving.Server/ServerTls/Incomer/IncomerTls",
                           "ioflo.aio.serial.serialing.Driver/DeviceNb.send/receive", "ioflo.aio.wiring.WireLog(buffify)"],
                  "stub": ["socket module (substrate.net)", "ssl context and TLS record layer (substrate.tls)",
                           "os.read/os.write of the serial fd (substrate.serial)", "far end (scripted raw endpoint)"]}
    assumptions = ["fake sockets follow measured Linux loopback semantics (selftest/fidelity.py)",
                   "TLS is a stub: OpenSSL is not exercised"]
    required_probes = ["partial-send", "send-eagain", "send-zero", "recv-eagain", "queued-while-sending", "quiescent-equal", "caller-supplied-containers"]
    quick_runs = 40000
    thorough_runs = 2000000
    shrink_fields = ["faults", "schedule", "msgs_a", "msgs_b"]

    def directed(self):
        d = []
        for t in TRANSPORTS:
            wsite = {"serial": "write@serial"}.get(t, "send@%s" % ("cli" if "client" in t else "srv"))
            rsite = {"serial": "read@serial"}.get(t, "recv@%s" % ("cli" if "client" in t else "srv"))
            if "tls" in t:
                wsite, rsite = wsite.replace("send", "tls_send"), rsite.replace("recv", "tls_recv")
                faults = [[wsite, 0, "want_write"], [rsite, 0, "want_read"]]
            else:
                faults = [[wsite, 0, "partial", 3], [wsite, 1, "partial", 0], [wsite, 2, "eagain"], [rsite, 0, "eagain"], [rsite, 1, "short", 2]]
            d.append({"transport": t, "cap": 8, "bs": 5, "maxrec": 4,
                      "msgs_a": [b"abcdefghij", b"", b"KLMNOP", b"q"], "msgs_b": [b"0123456789", b"xyz"],
                      "schedule": [["q"], ["tx"], ["q"], ["tx"], ["ps", 4], ["dl", 1, 3], ["rx"], ["tx"], ["q"], ["dl", 0, 2], ["pr", 2], ["tx"], ["rx"]],
                      "faults": faults})
        return d

    def generate(self, S, index, tier):
        g = S.gen
        t = TRANSPORTS[index % len(TRANSPORTS)] if g.random() < 0.8 else g.choice(TRANSPORTS)
        maxlen = g.choice([4, 12, 40])
        msgs_a = [_msg(g, i, maxlen) for i in range(g.randint(1, 6))]
        msgs_b = [_msg(g, 100 + i, maxlen) for i in range(g.randint(0, 4))]
        cap = g.choice([1, 2, 3, 5, 8, 16, 64])
        bs = g.choice([1, 2, 3, 7, 16])
        maxrec = g.choice([1, 3, 8, 64])
        sched = []
        s = S.sched
        nsteps = s.randint(0, 40)
        for _ in range(nsteps):
            r = s.random()
            if r < 0.15:
                sched.append(["q"])
            elif r < 0.40:
                sched.append(["tx"])
            elif r < 0.55:
                sched.append([s.choice(["rx", "rx1"])])
            elif r < 0.75:
                sched.append(["dl", s.randint(0, 1), s.choice([1, 1, 2, 3, 8, 100])])
            elif r < 0.88:
                sched.append(["ps", s.choice([1, 2, 3, 5, 20])])
            else:
                sched.append(["pr", s.choice([1, 2, 4, 100])])
        f = S.fault
        faults = []
        mode = f.choice(["none", "light", "heavy"])
        if mode != "none":
            rate = 0.15 if mode == "light" else 0.5
            role = "cli" if "client" in t else "srv"
            if t == "serial":
                wsite, rsite = "write@serial", "read@serial"
            elif "tls" in t:
                wsite, rsite = "tls_send@" + role, "tls_recv@" + role
            else:
                wsite, rsite = "send@" + role, "recv@" + role
            for occ in range(40):
                if f.random() < rate:
                    if "tls" in t:
                        faults.append([wsite, occ, f.choice(["want_write", "want_read"])])
                    else:
                        k = f.choice(["partial", "partial", "eagain"])
                        faults.append([wsite, occ, k, f.choice([0, 1, 1, 2, 3, 5, 9])] if k == "partial" else [wsite, occ, k])
                if f.random() < rate:
                    if "tls" in t:
                        faults.append([rsite, occ, "want_read"])
                    else:
                        k = f.choice(["eagain", "short"])
                        faults.append([rsite, occ, k, f.choice([1, 2, 3])] if k == "short" else [rsite, occ, k])
        return {"transport": t, "cap": cap, "bs": bs, "maxrec": maxrec, "msgs_a": msgs_a, "msgs_b": msgs_b,
                "schedule": sched, "faults": faults, "own": S.gen.random() < 0.3}

    # ------------------------------------------------------------------
    def execute(self, plan):
        out = Outcome()
        tr = Trace(keep=False)
        t = plan["transport"]
        extra = []
        abstract = hashlib.sha256()
        with world(faults=plan["faults"], out=out, cap=plan["cap"], trace=tr) as net:
            ep = make_endpoint(net, t, bs=plan["bs"], maxrec=plan["maxrec"], own=bool(plan.get("own")) and t in ("client", "clienttls"))
            if ep is not None and getattr(ep, "own_txes", None) is not None:
                out.probe("caller-supplied-containers")
            if ep is None:
                raise RuntimeError("harness: could not establish %s" % t)
            if t == "serial":
                import ioflo.aio.serial.serialing as serialing
                saved_os = serialing.os
                serialing.os = ep.serial
            try:
                self._drive(plan, out, tr, net, ep, abstract)
            finally:
                if t == "serial":
                    serialing.os = saved_os
        for k in list(out.faults):
            if k.endswith(":eagain") and k.startswith(("send", "write")):
                out.probe("send-eagain", out.faults[k])
            if k.endswith(":eagain") and k.startswith(("recv", "read")):
                out.probe("recv-eagain", out.faults[k])
            if k.endswith("want_write"):
                out.probe("send-eagain", out.faults[k])
            if k.endswith("want_read") and k.startswith("tls_recv"):
                out.probe("recv-eagain", out.faults[k])
        out.digest = tr.digest()
        out.state_digest = abstract.hexdigest()[:16]
        out.nontrivial = bool(out.faults) or bool(out.probes.get("partial-send"))
        return out

    def _drive(self, plan, out, tr, net, ep, abstract):
        t = plan["transport"]
        sut = ep.sut
        msgs_a = list(plan["msgs_a"])
        queued = bytearray()
        nq = 0
        peer_stream = b"".join(plan["msgs_b"])
        peer_off = 0           # bytes of peer_stream the far end's socket has accepted
        peer_got = bytearray()  # bytes the far end has read
        serial = ep.serial

        def fail(kind, detail):
            out.violate(kind, "%s:%s" % (t, kind), detail)

        def rxbuf():
            return ep.own_rxbs if getattr(ep, "own_rxbs", None) is not None else sut.rxbs

        def call(name, fn):
            try:
                fn()
                return True
            except Exception as ex:  # C24 injects no errors: nothing may raise
                out.violate("exception", "%s:%s:%s" % (t, name, type(ex).__name__), "%s raised %r" % (name, ex))
                return False

        def step(st):
            nonlocal nq, peer_off
            op = st[0]
            if op == "q":
                if nq < len(msgs_a):
                    if ep.accepted() != bytes(queued) and len(sut.txes):
                        out.probe("queued-while-sending")
                    if getattr(ep, "own_txes", None) is not None:
                        ep.own_txes.append(msgs_a[nq])      # queued through the caller's own deque
                    else:
                        sut.tx(msgs_a[nq])
                    queued.extend(msgs_a[nq])
                    nq += 1
            elif op == "tx":
                return call("serviceTxes", sut.serviceTxes)
            elif op == "rx":
                return call("serviceReceives", sut.serviceReceives)
            elif op == "rx1":
                return call("serviceReceiveOnce", sut.serviceReceiveOnce)
            elif op == "dl":
                if serial is not None:
                    if st[1] == 0:
                        serial.drain(st[2])
                else:
                    w = ep.sock if st[1] == 0 else ep.peer_raw
                    if w.txpipe is not None:
                        w.txpipe.deliver(st[2])
            elif op == "ps":
                chunk = peer_stream[peer_off:peer_off + st[1]]
                if chunk:
                    if serial is not None:
                        serial.line_in.extend(chunk)
                        peer_off += len(chunk)
                    else:
                        try:
                            peer_off += ep.peer.send(chunk)
                        except OSError:
                            pass
            elif op == "pr":
                if serial is None:
                    try:
                        peer_got.extend(ep.peer.recv(st[1]))
                    except OSError:
                        pass
            return True

        def invariants(final=False):
            acc = ep.accepted()
            q = bytes(queued)
            if acc != q[:len(acc)]:
                fail("accepted-not-prefix", "socket accepted %r, queued %r" % (acc, q))
                return False
            if ep.wlog is not None:
                buf = ep.wlog.getTx()
                data, err = parse_wirelog(buf, "TX", ep.da, ep.accepted_chunks())
                if err or data != acc:
                    fail("wirelog-tx", "wire log tx %r (%s) != accepted %r" % (data, err, acc))
                    return False
            rx = bytes(rxbuf())
            got = b"".join(ep.received_chunks())
            if rx != got:
                fail("rxbs-order", "rxbs %r != chunks in arrival order %r" % (rx, got))
                return False
            if rx != peer_stream[:len(rx)]:
                fail("rxbs-not-prefix", "rxbs %r not a prefix of what the far end sent %r" % (rx, peer_stream))
                return False
            if ep.wlog is not None:
                data, err = parse_wirelog(ep.wlog.getRx(), "RX", ep.da if t != "serial" else None,
                                          [len(c) for c in ep.received_chunks()])
                if err or data != rx:
                    fail("wirelog-rx", "wire log rx %r (%s) != received %r" % (data, err, rx))
                    return False
            pending = b"".join(bytes(x) for x in sut.txes)
            if acc + pending != q:
                fail("queue-conservation", "accepted %r + still queued %r != queued %r" % (acc, pending, q))
                return False
            abstract.update(b"%d,%d,%d,%d;" % (len(sut.txes), len(acc), 1 if (serial is None and ep.sock.txpipe.nflight) else 0, len(rx)))
            return True

        ok = True
        for st in plan["schedule"]:
            tr.add("step", st)
            ok = step(st) and invariants()
            out.steps += 1
            if not ok:
                return
        # fault-free tail: round-robin until quiescent
        net.faults.enabled = False
        same = 0
        for rnd in range(400):
            before = (len(ep.accepted()), len(rxbuf()), nq, peer_off, len(peer_got))
            for st in (["q"], ["tx"], ["dl", 0, 1 << 20], ["pr", 1 << 20], ["ps", 1 << 20], ["dl", 1, 1 << 20], ["rx"]):
                if not (step(st) and invariants()):
                    return
                out.steps += 1
            if serial is not None:
                peer_got.extend(b"")  # far end of a serial line has no read step
            after = (len(ep.accepted()), len(rxbuf()), nq, peer_off, len(peer_got))
            same = same + 1 if (after == before and nq == len(msgs_a)) else 0
            if same >= 3:
                break
        acc = ep.accepted()
        tr.add("final", acc, bytes(rxbuf()))
        if acc != bytes(queued) or len(sut.txes):
            fail("lost-at-quiescence", "accepted %r != queued %r (txes %r)" % (acc, bytes(queued), list(sut.txes)))
        elif bytes(rxbuf()) != peer_stream[:peer_off]:
            fail("rx-lost-at-quiescence", "rxbs %r != sent by far end %r" % (bytes(rxbuf()), peer_stream[:peer_off]))
        elif serial is None and bytes(peer_got) != acc:
            fail("peer-got", "far end read %r != accepted %r" % (bytes(peer_got), acc))
        else:
            out.probe("quiescent-equal")
        if any(f[2] == "partial" and f[3] == 0 for f in net.faults.fired):
            out.probe("send-zero")


CHECK = C24()
