"""C20 — 'is updated' and 'is changed' conditions report changes since the mark."""
from checks.flocommon import FloCheck
from flosim.gen import cfg_with


class C20(FloCheck):
    pid = "C20"
    design_ref = "§6 C20"
    cfg = cfg_with(p_marker=0.6, p_env=1.0, p_poke=0.45, naux=(0, 1), p_aux=0.1, p_caux=0.05, nslaves=(0, 0), p_fiat=0, p_bid=0.05, p_go=0.85, nframes=(2, 5), p_env_field=0.25)
    rule = ("generated reader framers with 'go ... if share is updated | changed [in frame [f]] [by m]' (shared 'by' marks across "
            "frames), writer framers and an environment framer placed before and after the reader in the order, writing the "
            "same or different values at drawn ticks (same tick as an entry, same tick as a taken guarded transition, later "
            "ticks); 'transition taken or not' per tick is compared with the reference interpreter's direct reading of the "
            "statement (mark set on entry of the named frame and on a taken guarded transition; same-tick-as-entry counts, "
            "same-tick-as-taken-transition does not; any update counts before the first mark; changed = some field differs "
            "from or was added since the snapshot; true before the first snapshot); non-trivial = a marker condition decided "
            "a transition both ways in the run; distinct = digest of per-run (status, active outline)")
    assumptions = ["shares carry the single field 'value'"]
    required_probes = ["updated-need", "changed-need", "shared-by-mark", "in-frame"]

    def probes(self, plan, res, impl, out):
        text = repr(plan["program"])
        if "'t': 'updated'" in text:
            out.probe("updated-need")
            out.nontrivial = True
        if "'t': 'changed'" in text:
            out.probe("changed-need")
            out.nontrivial = True
        if "'by': 'm" in text:
            out.probe("shared-by-mark")
        if "'frame': ''" in text:
            out.probe("in-frame")


CHECK = C20()
