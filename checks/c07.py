"""C07 — framer runs agree with a reference interpreter of FloScript semantics.

Full co-simulation: per tick, the sequence of executed (recorded) actions, the active
outlines, elapsed / recurred / done of every framer after every run, and the environment
writes must equal those of flosim.model (DESIGN.md appendix A).  Tick periods are
binary-exact here so that the arithmetic questions of C02 / C11 do not leak in.
"""
from checks.flocommon import FloCheck
from flosim.gen import cfg_with


class C07(FloCheck):
    pid = "C07"
    design_ref = "§6 C07, appendix A"
    cfg = cfg_with(p_copyf=0.12, naux=(0, 2), nslaves=(0, 1), p_marker=0.1, p_bid=0.15, p_fiat=0.3, p_status_need=0.1)
    rule = ("generated well-formed programs: 1-3 scheduled framers (active / inactive, front / mid / back, own periods), 0-2 "
            "auxiliary and 0-1 slave framers, 1-6 frames each in forests of depth <= 3 with primary-child overrides, actions in "
            "every context (recorders, put, inc), go / timeout / repeat transitions with conditions on shares, elapsed, "
            "recurred, status, update / change marks, entry guards, plain and conditional auxiliaries, done, bids, fiats, plus "
            "an environment framer writing a seeded history of share values at drawn ticks and positions in the order; 6-30 "
            "ticks; compared event by event with the reference interpreter; non-trivial = at least one transition happened; "
            "distinct = digest of per-run (status, active outline)")
    assumptions = ["the reference interpreter is written from the property statements and appendix A; every disagreement is triaged by hand against the statement"]
    required_probes = ["transition", "aux", "cond-aux-suspended", "fiat", "bid", "let-refused-or-passed"]
    quick_runs = 4000
    thorough_runs = 200000

    def probes(self, plan, res, impl, out):
        text = repr(plan["program"])
        acts = set()
        for e in impl:
            if e[1] == "sent" and e[5]:
                acts.add((e[2], e[5][0]))
                if e[5][0] and len(e[5][1]) and e[5][1][-1] != e[5][0] and e[5][0] in e[5][1]:
                    pass
        names = {}
        for a in acts:
            names.setdefault(a[0], set()).add(a[1])
        if any(len(v - {None}) > 1 for v in names.values()):
            out.probe("transition")
            out.nontrivial = True
        if "'k': 'aux'" in text:
            out.probe("aux")
        if "'k': 'fiat'" in text:
            out.probe("fiat")
        if "'k': 'bid'" in text:
            out.probe("bid")
        if "'k': 'let'" in text:
            out.probe("let-refused-or-passed")
        for e in impl:
            if e[1] == "sent" and e[5] and e[5][0] and e[5][1] and e[5][1][-1] != outline_leaf(plan, e[2], e[5][0]):
                out.probe("cond-aux-suspended")
                break


def outline_leaf(plan, framer, active):
    from checks.flocommon import outline_of
    for fr in plan["program"]["framers"]:
        if fr["name"] == framer:
            return outline_of(fr, active)[-1]
    return None


CHECK = C07()
