"""C04 — bids and fiats change a tasker's state at its next run, last bid wins."""
from checks.flocommon import FloCheck
from flosim.gen import cfg_with
from flosim.model import STOP, START, RUN, ABORT, READY, STOPPED, STARTED, RUNNING, ABORTED, READIED, FIAT_WANT, CONTROL

NAMES = {"ready": READIED, "start": STARTED, "run": RUNNING, "stop": STOPPED, "abort": ABORTED}


class C04(FloCheck):
    pid = "C04"
    design_ref = "§6 C04"
    cfg = cfg_with(p_staged=0.3, nmain=(2, 4), nslaves=(1, 2), p_fiat=0.55, p_bid=0.6, p_status_need=0.2, p_let=0.35, p_inactive=0.4, p_period=0.35, naux=(0, 1), p_aux=0.1, p_caux=0.05,
                   nframes=(1, 4), p_env=0.9, p_slave_order=0.5)
    rule = ("generated programs with several active, inactive and slave framers whose frames issue bids (start, run, stop, abort, "
            "ready on named framers and 'me') and fiats on slaves in enter / recur / exit contexts at ticks decided by the "
            "environment history, targets before and after the bidder in the order and with periods above the tick period, "
            "slave first frames with 'let' guards; directly from the trace: a slave is only ever sent to from inside another "
            "framer's run, each fiat reports exactly whether the requested state was reached, a failed-guard start leaves the "
            "slave stopped; the control each framer receives at each run (last bid wins, same tick iff it runs later in the "
            "tick and is due) by the reference interpreter; non-trivial = a bid changed a framer's next control; distinct = "
            "digest of per-run (status, active outline)")
    assumptions = ["'next run' of an inactive or stopped target includes the no-op sends the skedder makes to it every due tick"]
    required_probes = ["fiat-true", "fiat-false", "slave-start-refused", "bid-took-effect", "inactive-started-by-bid"]

    def invariants(self, plan, res, impl, out):
        slaves = set(fr["name"] for fr in plan["program"]["framers"] if fr.get("sched") == "slave")
        inactive = set(fr["name"] for fr in plan["program"]["framers"] if fr.get("sched") == "inactive")
        depth = 0
        last_sent = None
        for e in impl:
            if e[1] == "send":
                depth += 1
                if e[2] in slaves and depth < 2:
                    out.violate("slave-scheduled", "a slave framer was run by the scheduler", "tick %d slave %s received control %s outside any framer's run" % (e[0], e[2], e[3]))
                    return
            elif e[1] == "sent":
                depth -= 1
                last_sent = e
                if e[2] in inactive and e[3] == START and e[4] == STARTED:
                    out.probe("inactive-started-by-bid")
                if e[2] in slaves and e[3] == START and e[4] == STOPPED:
                    out.probe("slave-start-refused")
            elif e[1] == "fiat":
                control, who, ret = e[2], e[3], e[4]
                if last_sent is None or last_sent[2] != who:
                    out.violate("fiat-no-send", "fiat did not send to its slave", "tick %d fiat %s %s" % (e[0], control, who))
                    return
                reached = last_sent[4] == NAMES[control]
                if bool(ret) != reached:
                    out.violate("fiat-return", "fiat return value differs from 'requested state reached'",
                                "tick %d fiat %s %s returned %r but status is %s" % (e[0], control, who, ret, last_sent[4]))
                    return
                out.probe("fiat-true" if ret else "fiat-false")

    def probes(self, plan, res, impl, out):
        first = {}
        for e in impl:
            if e[1] == "send" and e[2].startswith("fm"):
                first.setdefault(e[2], []).append(e[3])
        for name, controls in first.items():
            if STOP in controls[1:] or ABORT in controls[1:-1] or READY in controls:
                out.probe("bid-took-effect")
                out.nontrivial = True


CHECK = C04()
