"""C35 — datagram stacks send each destination's packets once, in queue order.

Real: UdpStack / GramStack.serviceTxPkts(+Once) / SocketUdpNb.send.  Simulated: the UDP
socket; per service pass the plan says which destinations transiently fail (sendto raises
one of the transient errnos) — also a fault at one individual sendto occurrence.
"""
import errno
import hashlib

from simkit.core import Outcome, Trace
from simkit.driver import Check
from netharn.world import world
from checks.c25 import FakePkt

TRANSIENT = [errno.ECONNREFUSED, errno.ECONNRESET, errno.ENETRESET, errno.ENETUNREACH, errno.EHOSTUNREACH,
             errno.ENETDOWN, errno.EHOSTDOWN, errno.ETIMEDOUT]
DESTS = [("127.0.0.1", 7101), ("127.0.0.1", 7102), ("127.0.0.1", 7103)]


class C35(Check):
    pid = "C35"
    level = "exploration"
    engine = "netsim.udp"
    design_ref = "§6 C35"
    rule = ("queues of 1-6 uniquely numbered packets over 1-3 destinations (more queued between passes), a list of service "
            "passes each with the set of destinations that transiently fail during it (errno drawn from the transient set), "
            "in some passes the error is reported once only; some packets for destination 0 are queued without an address (default destination); then fault-free passes (full passes, or in 30% of the runs one-packet passes) until the queue drains; non-trivial = some destination failed while packets to another "
            "destination or later packets to itself were queued; distinct = digest of (queue, failure pattern)")
    components = {"real": ["ioflo.aio.proto.stacking.UdpStack / GramStack.serviceTxPkts", "ioflo.aio.udp.udping.SocketUdpNb"],
                  "stub": ["socket module (UDP)", "packets (pre-packed bytes)"]}
    assumptions = ["a sendto that raises did not send the datagram"]
    required_probes = ["fail-with-other-dest-queued", "fail-with-same-dest-behind", "all-fail-pass", "queued-between-passes", "drained-by-once-passes", "default-destination", "error-reported-once"]
    quick_runs = 30000
    thorough_runs = 1500000
    shrink_fields = ["passes", "queue"]

    def directed(self):
        return [{"queue": [[0, 0], [0, 0], [0, 0], [1, 0]], "passes": [{"fail": [[0, errno.ECONNREFUSED]], "once": False}], "late": []},
                {"queue": [[0, 0], [1, 0], [2, 0], [0, 0], [1, 0], [2, 0]], "passes": [{"fail": [[1, errno.EHOSTDOWN]], "once": False},
                                                                                      {"fail": [[0, errno.ETIMEDOUT], [1, errno.ENETDOWN], [2, errno.ECONNRESET]], "once": False},
                                                                                      {"fail": [[2, errno.ENETUNREACH]], "once": True}], "late": [[1, 1], [0, 2]]}]

    def generate(self, S, index, tier):
        g = S.gen
        nd = g.randint(1, 3)
        queue = [[g.randrange(nd), 0] for _ in range(g.randint(1, 6))]
        late = [[g.randrange(nd), g.randint(1, 3)] for _ in range(g.randint(0, 2))]
        f = S.fault
        passes = []
        for _ in range(f.randint(0, 5)):
            fail = [[d, f.choice(TRANSIENT)] for d in range(nd) if f.random() < 0.4]
            passes.append({"fail": fail, "once": f.random() < 0.2})
        plan = {"queue": queue, "passes": passes, "late": late, "drain_once": f.random() < 0.3}
        # some packets for destination 0 queued without an address: the stack's zeroth remote (destination 0) is the default
        # (side generator: all other plans stay as they were)
        import random as _r
        sg = _r.Random(hashlib.sha256(repr((g.getstate(), f.getstate())).encode()).hexdigest())
        # passes in which a destination's error is reported once only (the send after it would go through): a stack that tried
        # that destination again within the pass would overtake the packet that failed
        plan["first"] = [i for i in range(len(passes)) if sg.random() < 0.3]
        if sg.random() < 0.3:
            plan["default"] = [i for i, (d, w) in enumerate(queue + late) if d == 0 and sg.random() < 0.5]
        return plan

    def execute(self, plan):
        from ioflo.aio.proto import stacking
        out = Outcome()
        tr = Trace(keep=False)
        with world(out=out) as net:
            st = stacking.UdpStack(ha=("127.0.0.1", 7000))
            serial = [0]
            queued = []          # (dest index, payload) in queue order

            default = set(plan.get("default") or [])
            if "default" in plan:
                from ioflo.aio.proto import devicing
                st.addRemote(devicing.IpRemoteDevice(stack=st, ha=DESTS[0]))

            def enqueue(d, ix=None):
                payload = b"P%03d>%d" % (serial[0], d)
                serial[0] += 1
                if ix in default:
                    out.probe("default-destination")
                    st.transmit(FakePkt(payload))
                else:
                    st.transmit(FakePkt(payload), DESTS[d])
                queued.append((d, payload))

            for i, (d, when) in enumerate(plan["queue"]):
                enqueue(d, i)
            late = [list(x) + [len(plan["queue"]) + i] for i, x in enumerate(plan["late"])]
            passes = list(plan["passes"])
            npass = 0
            while True:
                for d, when, ix in [x for x in late if x[1] == npass]:
                    enqueue(d, ix)
                    out.probe("queued-between-passes")
                late = [x for x in late if x[1] != npass]
                spec = passes[npass] if npass < len(passes) else {"fail": [], "once": bool(plan.get("drain_once"))}
                if npass >= len(passes) and spec["once"]:
                    out.probe("drained-by-once-passes")
                net.dest_faults = dict((DESTS[d], e) for d, e in spec["fail"])
                net.dest_faults_once = {}
                if npass in (plan.get("first") or []) and spec["fail"]:
                    net.dest_faults_once, net.dest_faults = net.dest_faults, {}
                    out.probe("error-reported-once")
                pending_before = [(DESTS.index(ha) if ha is not None else 0, bytes(p.packed)) for p, ha in st.txPkts]
                failing = set(d for d, e in spec["fail"])
                if failing:
                    if any(d not in failing for d, p in pending_before) and any(d in failing for d, p in pending_before):
                        out.probe("fail-with-other-dest-queued")
                    for d in failing:
                        if sum(1 for dd, p in pending_before if dd == d) >= 2:
                            out.probe("fail-with-same-dest-behind")
                    if pending_before and all(d in failing for d, p in pending_before):
                        out.probe("all-fail-pass")
                sent0 = len(net.sent_dgrams)
                try:
                    (st.serviceTxPktsOnce if spec["once"] else st.serviceTxPkts)()
                except Exception as ex:
                    out.violate("exception", "serviceTxPkts raised %s" % type(ex).__name__, repr(ex))
                    break
                sent_now = [(DESTS.index(dst), data) for (_s, dst, data) in net.sent_dgrams[sent0:]]
                tr.add("pass", npass, spec["fail"], spec["once"], sent_now)
                out.steps += 1
                first_only = bool(net.dest_faults_once) or (npass in (plan.get("first") or []) and bool(spec["fail"]))
                if not spec["once"] and first_only:
                    # the error was reported once: a stack may or may not try that destination again within the pass; what it sends
                    # to it must be the head of that destination's queue in order, and the other destinations are served as ever
                    should = [(d, p) for d, p in pending_before if d not in failing]
                    other = [x for x in sent_now if x[0] not in failing]
                    if other != should:
                        out.violate("blocked" if len(other) < len(should) else "reordered", "healthy destination %s within a pass" % ("blocked" if len(other) < len(should) else "reordered"),
                                    "pass %d failing once %r: sent %r, expected for the healthy destinations %r" % (npass, sorted(failing), sent_now, should))
                        break
                    bad = None
                    for d in failing:
                        sd = [p for dd, p in sent_now if dd == d]
                        pd = [p for dd, p in pending_before if dd == d]
                        if sd != pd[:len(sd)]:
                            bad = (d, sd, pd)
                    if bad:
                        out.violate("reordered", "healthy destination reordered within a pass",
                                    "pass %d: destination %d reported one error; sent to it %r although its queue was %r" % (npass, bad[0], bad[1], bad[2]))
                        break
                elif not spec["once"]:
                    # within a pass a failing destination must not hold back packets to healthy destinations
                    should = [(d, p) for d, p in pending_before if d not in failing]
                    if sent_now != should:
                        kind = "blocked" if len(sent_now) < len(should) else "reordered"
                        out.violate(kind, "healthy destination %s within a pass" % kind,
                                    "pass %d failing %r: sent %r, expected exactly the queued packets of healthy destinations in order %r"
                                    % (npass, sorted(failing), sent_now, should))
                        break
                else:
                    if len(sent_now) > 1:
                        out.violate("once", "serviceTxPktsOnce sent more than one packet", repr(sent_now))
                        break
                    # the once variant attempts exactly the head of the queue: sent unless its destination fails in this pass
                    should = [x for x in pending_before[:1] if x[0] not in failing]
                    if sent_now != should:
                        out.violate("once-blocked" if not sent_now else "once-wrong", "serviceTxPktsOnce did not send the head of the queue to a healthy destination",
                                    "pass %d failing %r: sent %r, expected %r (queue %r)" % (npass, sorted(failing), sent_now, should, pending_before))
                        break
                npass += 1
                if npass >= len(passes) and not late and not st.txPkts:
                    break
                if npass > len(passes) + 12 + len(queued):
                    out.violate("stuck", "queue does not drain after faults stop", "still queued %r" % ([bytes(p.packed) for p, ha in st.txPkts],))
                    break
            if not out.violations:
                sent = [(DESTS.index(dst), data) for (_s, dst, data) in net.sent_dgrams]
                if sorted(sent) != sorted(queued):
                    dup = [x for x in set(sent) if sent.count(x) > 1]
                    kind = "duplicated" if dup else "lost"
                    out.violate(kind, "packet %s" % kind, "sent %r queued %r" % (sent, queued))
                else:
                    for d in range(len(DESTS)):
                        if [p for dd, p in sent if dd == d] != [p for dd, p in queued if dd == d]:
                            out.violate("order", "per-destination order not preserved", "dest %d sent %r queued %r"
                                        % (d, [p for dd, p in sent if dd == d], [p for dd, p in queued if dd == d]))
                            break
        out.digest = tr.digest()
        out.state_digest = hashlib.sha256(repr((plan["queue"], plan["passes"], plan["late"])).encode()).hexdigest()[:16]
        out.nontrivial = bool(out.probes.get("fail-with-other-dest-queued") or out.probes.get("fail-with-same-dest-behind"))
        return out


CHECK = C35()
