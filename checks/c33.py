"""C33 — server-sent events parse the same for any split and line ending.

Real: Patron + Respondent + EventSource + Client transport.  Simulated: network (cuts),
scripted streaming server (read-until-close or chunked transfer with arbitrary chunk
boundaries), service-call interleaving.  Oracle: a reference SSE parser written from the
field rules, applied to the whole stream.
"""
import hashlib

from simkit.core import Outcome, Trace
from simkit.driver import Check
from netharn.http import http_world, HPORT, split_bytes
from substrate.net import SimSocket

EOLS = [b"\r\n", b"\n", b"\r"]


def reference(stream):
    """SSE field rules: lines end in CRLF | LF | CR; blank line dispatches if data was seen."""
    text = stream.decode("utf-8")
    lines = []
    cur = []
    i = 0
    while i < len(text):
        ch = text[i]
        if ch == "\r":
            lines.append("".join(cur))
            cur = []
            if i + 1 < len(text) and text[i + 1] == "\n":
                i += 1
        elif ch == "\n":
            lines.append("".join(cur))
            cur = []
        else:
            cur.append(ch)
        i += 1
    events = []
    leid = None
    retry = None
    name = ""
    data = []
    for line in lines:
        if line == "":
            # data lines joined by newlines, empty ones included ('data:' + 'data: b' is "\nb"); an event whose joined data is
            # the empty string is not dispatched (the statement leaves this case open; the library's rule is kept, Appendix B)
            if "\n".join(data) != "":
                events.append({"id": leid, "name": name, "data": "\n".join(data)})
            name, data = "", []
            continue
        if line.startswith(":"):
            continue
        field, sep, value = line.partition(":")
        if value.startswith(" "):
            value = value[1:]
        if field == "event":
            name = value
        elif field == "data":
            data.append(value)
        elif field == "id":
            leid = value
        elif field == "retry":
            if value.isdigit():
                retry = int(value)
    return events, retry, leid


def gen_stream(g, eol_mode):
    """Returns list of (line text, eol bytes)."""
    lines = []
    words = ["alpha", "b", "some data", "x:y", "{\"k\": 1}", "tail ", "café", "123", " lead", "  two"]

    def eol():
        return g.choice(EOLS) if eol_mode == "mixed" else {"crlf": b"\r\n", "lf": b"\n", "cr": b"\r"}[eol_mode]

    for e in range(g.randint(1, 6)):
        if g.random() < 0.3:
            lines.append((":" + g.choice(["", " keepalive", "comment: x"]), eol()))
        if g.random() < 0.4:
            lines.append(("id: %d" % g.randint(0, 99) if g.random() < 0.8 else "id:%s" % g.choice(words[:2]), eol()))
        if g.random() < 0.4:
            lines.append(("event: " + g.choice(["update", "msg", "ping"]), eol()))
        if g.random() < 0.25:
            lines.append(("retry: %s" % g.choice(["50", "1000", "abc", "3000"]), eol()))
        for k in range(g.randint(0, 3)):
            sep = g.choice(["data: ", "data:"])
            lines.append((sep + g.choice(words), eol()))
        if g.random() < 0.25:      # empty data lines, leading / in the middle / trailing / alone ('data' without colon is one too)
            nd = sum(1 for t, _e in lines[::-1][:3] if t.startswith("data"))
            for _ in range(g.randint(1, 2)):
                lines.insert(len(lines) - g.randint(0, min(nd, 3)), (g.choice(["data:", "data: ", "data"]), eol()))
        if g.random() < 0.1:
            lines.append(("unknown: field", eol()))
        lines.append(("", eol()))
    return lines


class C33(Check):
    pid = "C33"
    level = "exploration"
    engine = "netsim.http"
    design_ref = "§6 C33"
    rule = ("generated event streams (comments, ids, event names, retries, multi-line data, unknown fields) with CR / LF / "
            "CRLF line endings (uniform or mixed per line), sent read-until-close or chunked with arbitrary chunk "
            "boundaries, delivered in the pieces of a cut vector (few cuts, many, every byte, or right after a CR) with "
            "1-2 service calls between deliveries; non-trivial = split into more than one piece or mixed endings; distinct = "
            "digest of (stream, framing, cut vector)")
    components = {"real": ["ioflo.aio.http.httping.EventSource / parseLine", "ioflo.aio.http.clienting.Patron / Respondent",
                           "ioflo.aio.tcp.clienting.Client"],
                  "stub": ["socket module", "scripted streaming server"]}
    assumptions = ["streams end with a blank line (no pending event at EOF) and contain no BOM, where the statement does not determine the result",
                   "an event whose data lines join to the empty string is not dispatched (the library's rule; the statement is silent)"]
    required_probes = ["mixed", "cr-only", "cut-after-cr", "chunked", "every-byte", "retry", "multi-line-data", "empty-data-line"]
    quick_runs = 12000
    thorough_runs = 600000
    shrink_fields = ["cuts", "lines"]

    def directed(self):
        lines = [[": hi", "\r"], ["id: 7", "\r\n"], ["event: update", "\n"], ["retry: 50", "\r"], ["data: a", "\r"], ["data: b", "\r\n"],
                 ["", "\r"], ["data: second", "\n"], ["", "\n"]]
        raw = "".join(t + e for t, e in lines).encode()
        return [
            {"lines": lines, "framing": "close", "chunks": [], "cuts": list(range(1, len(raw) + 200)), "svc": 1},
            {"lines": lines, "framing": "chunked", "chunks": [3, 9, 10, 20], "cuts": [5, 50, 90], "svc": 2},
            {"lines": [["data: a", "\r"], ["", "\r"], ["data: b", "\r\n"], ["", "\r\n"]], "framing": "close", "chunks": [], "cuts": [], "svc": 1},
        ]

    def generate(self, S, index, tier):
        g = S.gen
        mode = g.choice(["mixed", "mixed", "crlf", "lf", "cr"])
        lines = [[t, e.decode()] for t, e in gen_stream(g, mode)]
        raw = "".join(t + e for t, e in lines).encode("utf-8")
        framing = g.choice(["close", "chunked"])
        s = S.sched
        chunks = sorted(set(s.randint(1, max(1, len(raw) - 1)) for _ in range(s.randint(0, 6)))) if framing == "chunked" else []
        n = len(raw) + 120 + 8 * len(chunks)
        r = s.random()
        if r < 0.4:
            cuts = sorted(s.randint(1, n) for _ in range(s.randint(1, 3)))
        elif r < 0.7:
            cuts = sorted(s.randint(1, n) for _ in range(s.randint(4, 30)))
        elif r < 0.8:
            cuts = list(range(1, n))
        else:
            cuts = ["after-cr"]
        return {"lines": lines, "framing": framing, "chunks": chunks, "cuts": cuts, "svc": s.choice([1, 1, 2])}

    def execute(self, plan):
        from ioflo.aio.http import clienting
        from ioflo.base.storing import Store
        out = Outcome()
        tr = Trace(keep=False)
        stream = "".join(t + e for t, e in plan["lines"]).encode("utf-8")
        eols = set(e for t, e in plan["lines"])
        if len(eols) > 1:
            out.probe("mixed")
        if eols == {"\r"}:
            out.probe("cr-only")
        if any(t.startswith("retry") for t, e in plan["lines"]):
            out.probe("retry")
        if any(t in ("data", "data:", "data: ") for t, e in plan["lines"]):
            out.probe("empty-data-line")
        for i in range(len(plan["lines"]) - 1):
            if plan["lines"][i][0].startswith("data") and plan["lines"][i + 1][0].startswith("data"):
                out.probe("multi-line-data")
        head = b"HTTP/1.1 200 OK\r\nContent-Type: text/event-stream\r\n"
        if plan["framing"] == "chunked":
            out.probe("chunked")
            head += b"Transfer-Encoding: chunked\r\n\r\n"
            body = bytearray()
            for piece in split_bytes(stream, plan["chunks"]):
                body += b"%x\r\n" % len(piece) + piece + b"\r\n"
            tail = b"0\r\n\r\n"
        else:
            head += b"Connection: close\r\n\r\n"
            body = stream
            tail = b""
        wire = head + bytes(body) + tail
        cuts = plan["cuts"]
        if cuts == ["after-cr"]:
            cuts = [i + 1 for i in range(len(wire)) if wire[i:i + 1] == b"\r"]
            out.probe("cut-after-cr")
        pieces = split_bytes(wire, cuts)
        if len(pieces) == len(wire):
            out.probe("every-byte")
        want_events, want_retry, want_leid = reference(stream)
        got = None
        with http_world(cap=1 << 20) as net:
            lst = SimSocket(net, "peer")
            lst.bind(("0.0.0.0", HPORT))
            lst.listen(5)
            pat = clienting.Patron(store=Store(stamp=0.0), hostname="127.0.0.1", port=HPORT, bufsize=4096, path="/stream")
            pat.open()
            srv = None
            try:
                for i in range(6):
                    pat.serviceAll()
                    net.deliver_all()
                    if srv is None:
                        try:
                            srv, ca = lst.accept()
                        except OSError:
                            pass
                if srv is None or not pat.connector.connected:
                    raise RuntimeError("harness: patron did not connect")
                pat.transmit()
                pat.serviceAll()
                net.deliver_all()
                for piece in pieces:
                    srv.send(piece)
                    net.deliver_all()
                    for k in range(plan["svc"]):
                        pat.serviceAll()
                        net.deliver_all()
                    tr.add("piece", len(piece), len(pat.events))
                for k in range(3):
                    pat.serviceAll()
                if plan["framing"] == "close":
                    srv.close()
                    net.deliver_all()
                    for k in range(3):
                        pat.serviceAll()
                        net.deliver_all()
                got = [{"id": e["id"], "name": e["name"], "data": e["data"]} for e in pat.events]
                retry = pat.respondent.eventSource.retry if pat.respondent.eventSource else None
                leid = pat.respondent.eventSource.leid if pat.respondent.eventSource else None
            except RuntimeError:
                raise
            except Exception as ex:
                import traceback
                out.violate("exception", "sse exception %s" % type(ex).__name__, "%r\n%s" % (ex, traceback.format_exc()[-500:]))
        if got is not None:
            tr.add("events", got, retry, leid)
            if got != want_events:
                k = 0
                while k < min(len(got), len(want_events)) and got[k] == want_events[k]:
                    k += 1
                kind = "events-count" if len(got) != len(want_events) else "event-fields"
                out.violate(kind, "sse %s" % kind, "first difference at event %d: got %r want %r (got %d events, want %d); stream %r pieces %r"
                            % (k, got[k:k + 1], want_events[k:k + 1], len(got), len(want_events), stream, [len(p) for p in pieces][:40]))
            elif retry != want_retry:
                out.violate("retry", "sse retry", "retry %r != %r" % (retry, want_retry))
            elif leid != want_leid:
                out.violate("leid", "sse last-event-id", "last event id %r != %r" % (leid, want_leid))
        out.digest = tr.digest()
        out.state_digest = hashlib.sha256(repr((plan["lines"], plan["framing"], plan["chunks"], cuts)).encode()).hexdigest()[:16]
        out.nontrivial = len(pieces) > 1 or len(eols) > 1
        out.steps = len(pieces)
        return out


CHECK = C33()
