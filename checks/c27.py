"""C27 — reconnectable clients and stacks eventually reconnect (bounded liveness).

Real: Client, Patron (HTTP client manager), TcpClientStack, each on a real Client.
Simulated: sockets, server (a scripted listener that can go down / up, refuse, black-hole,
reset, close), store clock.  Faults flow until the plan's quiet point; after it the server
listens, no fault is injected, and the client must be connected within
ceil((timeout + L)/dt) + 6 service rounds.  No deadline is asserted while faults flow.
"""
import errno
import hashlib
import math

from simkit.core import Outcome, Trace
from simkit.driver import Check
from netharn.world import world
from netharn.tcp import PORT
from substrate.net import SimSocket

LOSS = [errno.ETIMEDOUT, errno.EHOSTUNREACH, errno.ENETUNREACH, errno.ECONNRESET, errno.ECONNREFUSED, errno.EINVAL]


class C27(Check):
    pid = "C27"
    level = "exploration"
    engine = "netsim.tcp"
    design_ref = "§6 C27"
    rule = ("seeded schedules of service rounds (each advancing the store clock by dt), server down/up windows, refused / "
            "black-holed / failing connects, resets and closes of the established connection, for Client, Patron and "
            "TcpClientStack with reconnectable on/off and timeout, dt, connect latency drawn per run; then a quiet "
            "phase in which the bound is checked; non-trivial = at least one failed attempt or loss happened before the "
            "quiet point; distinct = digest of per-round (connected, cutoff, server up)")
    components = {"real": ["ioflo.aio.tcp.clienting.Client", "ioflo.aio.http.clienting.Patron", "ioflo.aio.proto.stacking.TcpClientStack",
                           "ioflo.aid.timing.StoreTimer", "ioflo.base.storing.Store / Stamper"],
                  "stub": ["socket module", "server (scripted listener)", "store clock advanced by the simulator"]}
    assumptions = ["a bare Client that loses an established connection is reopened by its owner; only failed attempts are its own job",
                   "bound = ceil((timeout + latency*dt)/dt) + 6 service rounds after the quiet point"]
    required_probes = ["reconnected-after-loss", "reconnected-after-failed-attempts", "blackhole", "nonreconnectable-stays-down", "addresses-checked", "patron-sse", "patron-partial", "patron-plain", "nonreconnectable-stays-down-with-open-event-stream", "second-loss"]
    quick_runs = 20000
    thorough_runs = 1000000
    shrink_fields = ["faults", "schedule"]

    def directed(self):
        return [
            {"kind": "patron", "reconnectable": True, "timeout": 1.0, "dt": 0.25, "latency": 1, "up0": True,
             "schedule": [["svc"], ["svc"], ["svc"], ["reset"], ["svc"], ["down"], ["svc"], ["svc"], ["svc"], ["svc"], ["svc"]], "faults": []},
            {"kind": "client", "reconnectable": True, "timeout": 0.5, "dt": 0.25, "latency": 0, "up0": False,
             "schedule": [["svc"], ["svc"], ["svc"], ["svc"]], "faults": [["connect@cli", 2, "blackhole"]]},
            {"kind": "stack", "reconnectable": True, "timeout": 0.5, "dt": 0.125, "latency": 2, "up0": True,
             "schedule": [["svc"], ["svc"], ["svc"], ["svc"], ["fin"], ["svc"], ["svc"]], "faults": [["connect@cli", 1, "refuse"]]},
            {"kind": "patron", "reconnectable": False, "timeout": 0.5, "dt": 0.25, "latency": 0, "up0": True,
             "schedule": [["svc"], ["svc"], ["svc"], ["reset"], ["svc"], ["svc"], ["svc"], ["svc"]], "faults": []},
            {"kind": "patron", "reconnectable": False, "timeout": 0.5, "dt": 0.25, "latency": 0, "up0": True, "exchange": "sse",
             "schedule": [["svc"], ["svc"], ["svc"], ["svc"], ["fin"], ["svc"], ["svc"], ["svc"], ["svc"]], "faults": []},
            {"kind": "patron", "reconnectable": True, "timeout": 0.5, "dt": 0.25, "latency": 0, "up0": True, "exchange": "sse",
             "schedule": [["svc"], ["svc"], ["svc"], ["svc"], ["reset"], ["svc"], ["svc"]], "faults": []},
        ]

    def generate(self, S, index, tier):
        g = S.gen
        kind = g.choice(["client", "patron", "stack"])
        s = S.sched
        sched = []
        for _ in range(s.randint(0, 30)):
            r = s.random()
            if r < 0.55:
                sched.append(["svc"])
            elif r < 0.65:
                sched.append(["down"])
            elif r < 0.75:
                sched.append(["up"])
            elif r < 0.83 and kind != "client":
                sched.append([s.choice(["reset", "fin"])])
            elif r < 0.92:
                sched.append(["net"])
            else:
                sched.append(["tick", s.choice([1, 2, 5, 20])])
        f = S.fault
        faults = []
        if f.random() < 0.7:
            for occ in range(12):
                if f.random() < 0.3:
                    k = f.choice(["refuse", "blackhole", "errno", "errno"])
                    faults.append(["connect@cli", occ, k, f.choice(LOSS)] if k == "errno" else ["connect@cli", occ, k])
        return {"kind": kind, "reconnectable": g.random() < 0.75, "timeout": g.choice([0.25, 0.5, 1.0, 2.0]),
                "dt": g.choice([0.0625, 0.125, 0.25, 0.5, 1.0]), "latency": g.choice([0, 0, 1, 3]), "up0": g.random() < 0.6,
                "schedule": sched, "faults": faults,
                # HTTP client only: a request is outstanding and the scripted server has answered it completely / partly / with
                # an event stream that is still open when the connection is lost
                "exchange": g.choice([None, "plain", "partial", "sse", "sse"]) if kind == "patron" else None,
                "retry": g.choice(["same", "same", "half", "zero"]), "again": g.random() < 0.5}

    def execute(self, plan):
        from ioflo.aio.tcp import clienting
        from ioflo.base.storing import Store
        out = Outcome()
        tr = Trace(keep=False)
        abstract = hashlib.sha256()
        kind, rec = plan["kind"], plan["reconnectable"]
        timeout, dt = plan["timeout"], plan["dt"]
        with world(faults=plan["faults"], out=out, cap=256, latency=plan["latency"], trace=tr) as net:
            lst = [None]
            accepted = []

            def up():
                if lst[0] is None or lst[0].closed:
                    s = SimSocket(net, "peer")
                    s.bind(("0.0.0.0", PORT))
                    s.listen(5)
                    lst[0] = s

            def down():
                if lst[0] is not None and not lst[0].closed:
                    lst[0].close()

            exchange = plan.get("exchange")
            # the stream's retry field (milliseconds) becomes the client's reconnection time: the configured timeout, half of it, or 0
            retry_ms = int(timeout * 1000 * {None: 1, "same": 1, "half": 0.5, "zero": 0}[plan.get("retry")])
            inbuf = {}

            def server_accept():
                if lst[0] is not None and not lst[0].closed:
                    while True:
                        try:
                            s, ca = lst[0].accept()
                        except OSError:
                            break
                        accepted.append(s)
                if not exchange:
                    return
                for s in accepted:       # the scripted HTTP server: one (possibly unfinished) answer per request seen
                    if s.closed:
                        continue
                    try:
                        data = s.recv(1 << 16)
                    except OSError:
                        continue
                    buf = inbuf.setdefault(id(s), bytearray())
                    buf.extend(data)
                    while b"\r\n\r\n" in buf:
                        del buf[:buf.index(b"\r\n\r\n") + 4]
                        if exchange == "plain":
                            reply = b"HTTP/1.1 200 OK\r\nContent-Length: 2\r\n\r\nok"
                        elif exchange == "partial":
                            reply = b"HTTP/1.1 200 OK\r\nContent-Length: 10\r\n\r\nabc"
                        else:
                            reply = (b"HTTP/1.1 200 OK\r\nContent-Type: text/event-stream\r\n\r\nretry: %d\n\nid: 7\ndata: a\n\n" % retry_ms)
                        try:
                            s.send(reply)
                        except OSError:
                            pass
                        out.probe("patron-" + exchange)

            if plan["up0"]:
                up()
            store = Store(stamp=0.0)
            if kind == "client":
                cl = clienting.Client(ha=("127.0.0.1", PORT), store=store, timeout=timeout, reconnectable=rec, bufsize=64)
                cl.reopen()
                service = cl.serviceConnect
                clock = store
            elif kind == "patron":
                from ioflo.aio.http import clienting as hclienting
                pat = hclienting.Patron(store=store, hostname="127.0.0.1", port=PORT, bufsize=64, timeout=timeout, reconnectable=rec)
                pat.open()
                if exchange:
                    pat.request(method="GET", path="/stream")
                cl = pat.connector
                service = pat.serviceAll
                clock = store
            else:
                from ioflo.aio.proto import stacking
                from ioflo.aid.timing import Stamper
                clock = Stamper(stamp=0.0)
                st = stacking.TcpClientStack(ha=("127.0.0.1", PORT), timeout=timeout, stamper=clock, bufsize=64)
                st.handler.reconnectable = rec
                service = st.serviceAll
            get = (lambda: st.handler) if kind == "stack" else ((lambda: pat.connector) if kind == "patron" else (lambda: cl))

            def advance(d):
                if kind == "stack":
                    clock.advance(d)
                else:
                    clock.advanceStamp(d)
                net.now += d
                out.sim_time += d

            state = {"was_connected": False, "cut_seen": False, "socks_at_cut": None, "failed": 0}

            def svc():
                h = get()
                try:
                    service()
                except BrokenPipeError:
                    # EPIPE (a write after the peer's FIN) is not a connection-loss errno: it propagates by C25 and the owner of
                    # the client deals with it; this party is then ended and nothing more is judged in this run
                    state["ended"] = True
                    out.probe("ended-by-epipe")
                    return False
                except Exception as ex:
                    out.violate("exception", "%s service raised %s" % (kind, type(ex).__name__), repr(ex))
                    return False
                h = get()
                if h.connected and not h.cutoff:
                    state["was_connected"] = True
                if h.cutoff and not state["cut_seen"]:
                    state["cut_seen"] = True
                    state["socks_at_cut"] = len([s for s in net.socks if s.role == "cli"])
                    out.probe("loss")
                abstract.update(b"%d%d%d;" % (bool(h.connected), bool(h.cutoff), lst[0] is not None and not lst[0].closed))
                advance(dt)
                out.steps += 1
                return True

            for stp in plan["schedule"]:
                tr.add("step", stp)
                code = stp[0]
                if code == "svc":
                    server_accept()
                    if not svc():
                        break
                elif code == "down":
                    down()
                elif code == "up":
                    up()
                elif code in ("reset", "fin"):
                    server_accept()
                    live = [s for s in accepted if not s.closed]
                    if live:
                        (live[-1].abort if code == "reset" else live[-1].close)()
                        net.deliver_all()
                elif code == "net":
                    net.deliver_all()
                elif code == "tick":
                    advance(stp[1] * dt)
            if out.violations or state.get("ended"):
                out.digest = tr.digest()
                return out
            for f in net.faults.fired:
                state["failed"] += 1
                if f[2] == "blackhole":
                    out.probe("blackhole")
            # ---- quiet point: faults stop, server listens -----------------------------------
            up()
            net.quiesce_faults()
            lat = plan["latency"]
            # an attempt can complete before the client gives up on it; once an event stream has named a reconnection time, that
            # time is what the client gives an attempt
            eff = min(timeout, retry_ms / 1000.0) if exchange == "sse" else timeout
            feasible = (lat + 1) * dt < eff or lat == 0
            bound = 2 * (int(math.ceil(timeout / dt)) + lat + 6)
            h = get()

            def live(h):
                if not (h.connected and not h.cutoff) or h.cs is None:
                    return False
                cs = getattr(h.cs, "sock", h.cs)
                return cs.peer is not None and not cs.peer.closed

            stable_from = None
            for rnd in range(bound + 4):
                net.deliver_all()
                server_accept()
                if not svc():
                    break
                h = get()
                ok_now = (h.connected and not h.cutoff) if kind == "client" else live(h)
                if ok_now:
                    if stable_from is None:
                        stable_from = rnd
                else:
                    stable_from = None
            h = get()
            if (plan.get("again") and rec and feasible and kind != "client" and not out.violations and not state.get("ended")
                    and stable_from is not None and stable_from <= bound and live(h)):
                # a second loss after the recovery: the client must come back again (state carried over from the first recovery,
                # e.g. a reconnection time taken from the event stream, must not disable it)
                server_accept()
                for sv in [x for x in accepted if not x.closed]:
                    sv.abort()
                net.deliver_all()
                out.probe("second-loss")
                stable2 = None
                for rnd in range(bound + 4):
                    net.deliver_all()
                    server_accept()
                    if not svc():
                        break
                    h = get()
                    if live(h):
                        if stable2 is None:
                            stable2 = rnd
                    else:
                        stable2 = None
                if not out.violations and not state.get("ended") and (stable2 is None or stable2 > bound):
                    out.violate("not-reconnected", "%s reconnectable not connected within bound after a second loss" % kind,
                                "stable_from=%r bound=%d rounds (timeout %s dt %s latency %s retry %s) connected=%s cutoff=%s"
                                % (stable2, bound, timeout, dt, lat, plan.get("retry"), h.connected, h.cutoff))
                stable_from = stable2 if stable2 is not None else stable_from
            h = get()
            tr.add("final", bool(h.connected), bool(h.cutoff), stable_from)
            if not out.violations and not state.get("ended"):
                if rec:
                    if not feasible:
                        out.probe("infeasible-latency-not-judged")
                    elif stable_from is None or stable_from > bound:
                        out.violate("not-reconnected", "%s reconnectable not connected within bound" % kind,
                                    "stable_from=%r bound=%d rounds (timeout %s dt %s latency %s) connected=%s cutoff=%s"
                                    % (stable_from, bound, timeout, dt, lat, h.connected, h.cutoff))
                    else:
                        out.probe("reconnected-after-loss" if state["cut_seen"] else ("reconnected-after-failed-attempts" if state["failed"] else "connected"))
                else:
                    if state["cut_seen"]:
                        now = len([s for s in net.socks if s.role == "cli"])
                        if now != state["socks_at_cut"] or (h.connected and not h.cutoff):
                            out.violate("reopened", "%s non-reconnectable reopened after cut off" % kind,
                                        "client sockets at cut off %r, now %r, connected=%s cutoff=%s" % (state["socks_at_cut"], now, h.connected, h.cutoff))
                        else:
                            out.probe("nonreconnectable-stays-down")
                            if exchange == "sse" and out.probes.get("patron-sse"):
                                out.probe("nonreconnectable-stays-down-with-open-event-stream")
                if not out.violations and h.connected and not h.cutoff:
                    cs = h.cs
                    try:
                        want = (cs.getsockname(), cs.getpeername())
                    except OSError as ex:
                        want = ("dead socket", repr(ex))
                    if (h.ca, h.ha) != want:
                        out.violate("addresses", "%s reports wrong addresses" % kind, "ca/ha %r != live socket %r" % ((h.ca, h.ha), want))
                    else:
                        out.probe("addresses-checked")
        out.digest = tr.digest()
        out.state_digest = abstract.hexdigest()[:16]
        out.nontrivial = bool(state["failed"] or state["cut_seen"])
        return out


CHECK = C27()
