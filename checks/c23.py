"""C23 — log rotation and flushing never lose or duplicate retained records.

Fault enumeration: for each sampled configuration (keep, cycle period, size threshold, flush
interval, reuse, logger period, record stream) the house is run once on the simulated disk
without a crash to count the file-system operations N, then once per kill point: the
simulated process dies at that operation (every SimFS call boundary; all when N <= 70, else
70 spread evenly).  A third group injects OSError from rename / IOError from open at drawn
operations (the two errors the logging code has branches for) without a kill.
Oracle, from the simulated disk and the simulator's own operation log:
  * retained files read oldest -> newest hold the record stream in order, no record twice,
    each file a contiguous stretch, each non-empty file starting with the header (an empty
    file - possible only as the newest one after a death - has nothing to start);
  * fault-free: nothing but the designed drop of the oldest copy ever removes a record, and
    the files end with the last record written;
  * a file is rotated only when it has reached the size threshold;
  * crash-free: after every logger run the last completed flush is less than one flush interval old;
  * after a death every record written before the most recent completed flush is present;
  * with reuse, a new process is then started on the surviving image (same directory) and logs a
    second stream to completion: the same clauses must hold for the files it leaves (the records
    that died in the first process's user buffers are taken out of the reference stream; nothing
    is tolerated about headers any more), and everything flushed before the death is still there.
"""
import hashlib
from fractions import Fraction

from simkit.core import Outcome, Trace
from simkit.driver import Check
from logsim.harness import run_logged, LOGDIR
from checks.flocommon import COMPONENTS

HEADER = "text\tAlways\tl1\n_time\tv\n"


def _mine(path):
    """Writes to the judged log (l1 and its rotated copies), not to another log of the same logger."""
    return path.rsplit("/", 1)[-1].startswith("l1")


def script_of(plan):
    L = ["house h", "", "  init .sim.v with value 0"]
    L += ["  framer wr be active in front first w0", "    frame w0", "      recur", "        do verif env with eid 0"]
    L += ["  framer zclk be active in front first z0", "    frame z0", "      repeat %d" % plan["ticks"], "    frame z1", "      enter", "        bid stop all"]
    lg = "  logger lg to /simlog"
    if plan.get("lperiod"):
        lg += " at %s" % plan["lperiod"]
    lg += " flush %s keep %d cycle %s size %d" % (plan["flush"], plan["keep"], plan["cycle"], plan["size"])
    if plan["reuse"]:
        lg += " reuse"
    L.append(lg)
    if plan.get("first_log"):     # the judged log is then the second log of its logger
        L += ["    log l0 on always", "      loggee value in .sim.v as v"]
    L += ["    log l1 on %s" % plan.get("rule", "always"), "      loggee value in .sim.v as v"]
    return "\n".join(L) + "\n"


class C23(Check):
    pid = "C23"
    level = "fault_enumeration"
    engine = "logsim"
    design_ref = "§6 C23"
    rule = ("configurations keep in {1,2,3} x cycle period in {0.25,0.5,1,2} x size threshold in {0,20,60,200,100000} x flush interval in "
            "{1,2} x reuse x logger period, 6-40 ticks of a unique-valued record stream ('always' rule, sometimes 'update' / 'change' with writes at drawn ticks; in 30% the judged log is the second log of its logger); per configuration one "
            "crash-free run, then one run per kill point (every simulated file-system call; all if <= 70 else 70 spread evenly), "
            "each killed run with reuse followed by a restart of the house on the surviving image logging a second stream, that "
            "second process killed again at two drawn points and a third one finishing, "
            "plus 4 runs with an injected rename / open error; non-trivial = at least one rotation happened before the kill; "
            "distinct = digest of (configuration, kill point, surviving files)")
    components = dict(COMPONENTS)
    components["real"] = COMPONENTS["real"] + ["ioflo.base.logging.Logger / Log (reopen, flush, cycle, close)", "ioflo.aid.filing.ocfn"]
    components["stub"] = COMPONENTS["stub"] + ["file system with process-death model (substrate.fs.SimFS)", "calendar"]
    assumptions = ["'dies' = process death: kernel-visible file state survives, user-space buffers do not; power loss is not modelled",
                   "records rotated out by design (the copy beyond 'keep') are not 'lost'",
                   "after a death an empty header-less newest file is not a violation"]
    required_probes = ["rotated", "killed-mid-rotation", "killed-with-unflushed", "size-gated", "io-error-branch", "designed-drop", "restarted-after-kill", "killed-twice", "flush-schedule-checked", "sparse-update", "sparse-change", "second-log-of-its-logger"]
    quick_runs = 120
    thorough_runs = 6000
    shrink_fields = []

    def generate(self, S, index, tier):
        g = S.gen
        ticks = g.randint(6, 40)
        return {"P": "0.25", "ticks": ticks, "keep": g.choice([1, 2, 3]), "cycle": g.choice(["0.25", "0.5", "1.0", "2.0"]),
                "size": g.choice([0, 20, 60, 200, 100000]), "flush": g.choice(["1.0", "2.0"]), "reuse": g.random() < 0.6,
                "lperiod": g.choice([None, None, "0.5"]), "kill": None, "faults": {},
                # mostly the 'always' rule (a record per logger run); sometimes a rule that writes only when the share was written,
                # with the writes at drawn ticks, so that flushes fall on ticks without a new record and records on ticks without a flush
                "rule": g.choice(["always", "always", "update", "change"]), "wticks": sorted(g.sample(range(ticks + 3), g.randint(2, max(2, ticks // 2)))),
                # another log declared before the judged one in the same logger (decided last, so that all other fields stay as they were)
                "first_log": g.random() < 0.3}

    def directed(self):
        return [{"P": "0.25", "ticks": 14, "keep": 2, "cycle": "0.5", "size": 20, "flush": "1.0", "reuse": True, "lperiod": None, "kill": None, "faults": {}}]

    def execute(self, plan):
        global HEADER
        out = Outcome()
        tr = Trace(keep=False)
        script = script_of(plan)
        P = Fraction(plan["P"])
        rule = plan.get("rule", "always")
        HEADER = "text\t%s\tl1\n_time\tv\n" % rule.capitalize()
        if plan.get("first_log"):
            out.probe("second-log-of-its-logger")
        if rule != "always":
            out.probe("sparse-" + rule)      # a log that does not write on every logger run: ticks with a flush but nothing new, and the reverse
        env = self._env(plan, 1000)
        if plan.get("kill") is not None or plan.get("faults"):
            self._one(plan, script, P, env, plan.get("kill"), plan.get("faults") or {}, out, tr)
            out.digest = tr.digest()
            return out
        n = self._one(plan, script, P, env, None, {}, out, tr)
        out.subruns = 1
        if not out.violations and n:
            points = list(range(n)) if n <= 70 else sorted(set(int(i * (n - 1) / 69.0) for i in range(70)))
            for k in points:
                self._one(plan, script, P, env, k, {}, out, tr)
                out.subruns += 1
                if out.violations:
                    break
            if not out.violations:
                # the two I/O errors the code has branches for, at the rename / open operations of the crash-free run
                ops = self._ops
                ren = [i for i, o in enumerate(ops) if o[1] == "rename"]
                opn = [i for i, o in enumerate(ops) if o[1] == "open" and len(o) > 3 and o[3] == "w+"]
                for idx in (ren[:1] + ren[len(ren) // 2:len(ren) // 2 + 1] + ren[-1:] + opn[:1]):
                    kind = "oserror" if ops[idx][1] == "rename" else "ioerror"
                    self._one(plan, script, P, env, None, {idx: kind}, out, tr)
                    out.subruns += 1
                    if out.violations:
                        break
        out.digest = tr.digest()
        out.state_digest = hashlib.sha256(repr(sorted((k, v) for k, v in plan.items() if k not in ("seed", "run_index"))).encode()).hexdigest()[:16]
        out.steps = out.subruns
        return out

    def _one(self, plan, script, P, env, kill, faults, out, tr):
        faults = dict((int(k), v) for k, v in faults.items())
        cap = float((plan["ticks"] + 10) * P)
        res, fs, killed = run_logged(script, float(P), env_table=env, kill_at=kill, faults=faults, cap=cap)
        concrete = dict(plan)
        concrete["kill"] = kill
        concrete["faults"] = dict((str(k), v) for k, v in faults.items())
        if kill is None and not faults:
            self._ops = list(fs.log)
        n = fs.nops
        ok = self._judge(plan, script, concrete, res, fs, killed, kill, faults, out, tr, phase="death" if killed else "clean", lost=())
        if ok and killed and plan["reuse"] and plan.get("restart", True):
            # a new process starts on the surviving image (same directory because of reuse) and logs a second stream;
            # then the same again with the second process killed too (two drawn points), and a third one finishing the job
            import copy
            lost, must = self._after_death(fs, set())
            snap = copy.deepcopy(fs)
            n1 = fs.nops
            fs.revive()
            res2, fs, killed2 = run_logged(script, float(P), env_table=self._env(plan, 2000), cap=cap, fs=fs)
            out.probe("restarted-after-kill")
            out.subruns += 1
            ok = self._judge(plan, script, concrete, res2, fs, killed2, kill, faults, out, tr, phase="restart", lost=lost, must=must)
            n2 = fs.nops - n1
            seconds = plan.get("kill2")
            if seconds is None:
                seconds = sorted(set([n1 + n2 // 3, n1 + (2 * n2) // 3])) if n2 > 3 else []
            for k2 in (seconds if ok else []):
                fs2 = copy.deepcopy(snap)
                fs2.revive()
                fs2.kill_at = k2
                c2 = dict(concrete, kill2=[k2])
                r2, fs2, dead2 = run_logged(script, float(P), env_table=self._env(plan, 2000), cap=cap, fs=fs2)
                if not dead2:
                    continue
                out.probe("killed-twice")
                out.subruns += 2
                if not self._judge(plan, script, c2, r2, fs2, True, kill, faults, out, tr, phase="second death", lost=lost, must=must):
                    break
                lost2, must2 = self._after_death(fs2, lost)
                fs2.revive()
                r3, fs2, dead3 = run_logged(script, float(P), env_table=self._env(plan, 3000), cap=cap, fs=fs2)
                if not self._judge(plan, script, c2, r3, fs2, dead3, kill, faults, out, tr, phase="restart after two deaths", lost=lost2, must=must2):
                    break
        return n

    @staticmethod
    def _env(plan, base):
        w = plan.get("wticks") if plan.get("rule", "always") != "always" else None
        if w is not None:
            w = set(w) | {0}      # the first value is written in the first tick, so every record of every process is unique
        return {0: dict((t, [(".sim.v", "value", base + t)]) for t in range(plan["ticks"] + 3) if w is None or t in w)}

    def _after_death(self, fs, lost_before):
        """(records that died in user buffers so far, records that were flushed before this death and so must survive)."""
        held = set()
        for ino in [i for pth, i in fs.files.items() if _mine(pth)] + [r[2] for r in fs.retired if _mine(r[0])]:
            held.update(ino.data)
        lost = set(lost_before) | set(t for (i, p, t) in fs.written if _mine(p) and t != HEADER and t != "" and t not in held)
        lastflush, need = self._durable(fs)
        return lost, (lastflush, [t for t in need if t not in lost_before])

    @staticmethod
    def _durable(fs):
        """Records written before the most recent completed application-level flush (Log.flush = file.flush + os.fsync)."""
        lastflush = max([i for i, p in fs.fsync_log if p and p.rsplit("/", 1)[-1].startswith("l1")] or [-1])
        return lastflush, [t for (i, p, t) in fs.written if _mine(p) and t != HEADER and t != "" and i < lastflush]

    def _judge(self, plan, script, concrete, res, fs, killed, kill, faults, out, tr, phase, lost, must=None):
        sig_cfg = "keep=%d size=%d reuse=%s" % (plan["keep"], plan["size"], plan["reuse"])
        if phase == "restart":
            sig_cfg += " after restart on the surviving image"
        elif phase != "death" and phase != "clean":
            sig_cfg += " " + phase

        def bad(kind, what, detail):
            out.violate(kind, what, "phase=%s kill=%r faults=%r killed_op=%r: %s\nfiles=%r\nlast ops=%r\n%s"
                        % (phase, kill, faults, fs.killed_op, detail, fs.snapshot(), fs.log[-12:], script), plan=concrete)
            return False

        if not killed and (res is None or not res.built or res.exc is not None):
            return bad("rejected", "logging program rejected or raised%s" % (" after restart" if phase == "restart" else ""),
                       "res exc=%r errors=%r" % (getattr(res, "exc", None), getattr(res, "build_errors", None)))
        files = fs.snapshot()
        fam = sorted(p for p in files if p.rsplit("/", 1)[-1].startswith("l1"))
        if not fam:
            if killed:
                return True
            return bad("no-file", "no log file", "files %r" % sorted(files))
        base = [p for p in fam if p.endswith("/l1.txt")]
        main = base[0] if base else fam[0].rsplit("/", 1)[0] + "/l1.txt"
        root = main[:-4]
        ordered = [p for p in sorted((p for p in fam if p != main), reverse=True)] + ([main] if main in files else [])
        S = [t for (i, p, t) in fs.written if _mine(p) and t != HEADER and t != "" and t not in lost]         # the record stream in write order
        pos = dict((t, i) for i, t in enumerate(S))
        if len(pos) != len(S):
            raise RuntimeError("harness: records are not unique")
        seen = []
        for p in ordered:
            text = files[p]
            if text == "":
                continue
            if not text.startswith(HEADER):      # (an empty file has nothing to start: skipped above)
                return bad("header", "retained file does not start with the header [%s]" % sig_cfg, "file %s = %r" % (p, text[:80]))
            body = text[len(HEADER):]
            if HEADER in body:
                return bad("header", "header repeated inside a file [%s]" % sig_cfg, "file %s" % p)
            recs = [l + "\n" for l in body.split("\n") if l]
            idxs = []
            for r in recs:
                if r not in pos:
                    return bad("garbage", "a retained file holds something that was never written as a record [%s]" % sig_cfg, "file %s line %r" % (p, r))
                idxs.append(pos[r])
            if idxs and idxs != list(range(idxs[0], idxs[0] + len(idxs))):
                return bad("not-contiguous", "records inside one file are not a contiguous stretch of the stream [%s]" % sig_cfg, "file %s holds stream positions %r" % (p, idxs))
            seen.extend(idxs)
        if seen != sorted(seen) or len(set(seen)) != len(seen):
            return bad("order", "records across the retained files are out of order or duplicated [%s]" % sig_cfg, "stream positions oldest->newest %r" % (seen,))
        # nothing but the designed drop of the oldest copy may remove records
        oldest = "%s%02d.txt" % (root, plan["keep"])
        for path, how, ino in fs.retired:
            if not path.rsplit("/", 1)[-1].startswith("l1"):
                continue
            gone = [t for t in ino.data if t != HEADER and t != "" and t in pos and pos[t] not in seen]
            if how in ("rename-over", "remove") and path == oldest:
                if gone:
                    out.probe("designed-drop")
                continue
            if gone:
                return bad("lost", "retained records destroyed by %s of %s [%s]" % (how, path.rsplit("/", 1)[-1], sig_cfg), "%d records gone, first %r" % (len(gone), gone[0]))
        # rotation only at / above the size threshold
        for opi, old, new, size, over in fs.rename_log:
            if old == main:
                out.probe("rotated")
                out.nontrivial = True
                if plan["size"] and size < plan["size"]:
                    return bad("early-rotation", "main file rotated below the size threshold [%s]" % sig_cfg, "size %d < %d at op %d" % (size, plan["size"], opi))
                if plan["size"]:
                    out.probe("size-gated")
        designed = set()
        for path, how, ino in fs.retired:
            if how in ("rename-over", "remove") and path == oldest:
                designed.update(pos[t] for t in ino.data if t in pos)
        if not killed:
            # everything written (and not lost in the buffers of a process that died earlier) and not dropped by design is on disk
            missing = [i for i in range(len(S)) if i not in seen and i not in designed]
            if missing:
                return bad("missing", "records missing from the retained files after a crash-free run [%s]%s" % (sig_cfg, " (with injected I/O error)" if faults else ""),
                           "stream positions %r of %d; retained %r" % (missing[:10], len(S), seen[:3] + ["..."] + seen[-3:]))
            if faults:
                out.probe("io-error-branch")
            elif res is not None and float(plan["flush"]) > 0:
                # the flush interval, judged by the data: after every logger run at time t, every record written at or before
                # t - interval has been covered by a completed flush of its file (an implementation may skip flushing a log that has
                # nothing new; it may not leave a record unflushed for longer than the interval).  Counted per process; a rotation
                # attempt flushes too.
                epoch = getattr(fs, "deaths", 0)
                fops = sorted((op, t) for (ep, t, op, p) in fs.fsync_ops if ep == epoch and t is not None and p == main)
                recs = [(t, op, text) for (ep, t, op, p, text) in fs.written_times if _mine(p) and ep == epoch and t is not None and text != HEADER]
                F = float(plan["flush"])
                runs = [e[1] for e in res.trace if e[2] == "sent" and e[3] == "lg" and e[5] in (1, 2)]
                for t in runs:
                    for tw, opw, text in recs:
                        if tw <= t - F + 1e-9 and not any(op > opw and tf <= t + 1e-9 for op, tf in fops):
                            return bad("flush-overdue", "a record stayed unflushed for longer than the flush interval [%s]" % sig_cfg,
                                       "logger ran at t=%s; record %r written at t=%s has not been covered by a completed flush of the main file (flush interval %s, flushes at %r)"
                                       % (t, text, tw, F, [tf for _o, tf in fops][:12]))
                out.probe("flush-schedule-checked")
            if must is not None:
                gone = [pos[t] for t in must[1] if t in pos and pos[t] not in seen and pos[t] not in designed]
                if gone:
                    return bad("not-durable", "records flushed before the process died are gone after the restart [%s]" % sig_cfg, "stream positions %r" % (gone[:10],))
        else:
            # durability: every record written before the most recent completed flush of its file is present
            lastflush, need_t = self._durable(fs)
            need = [pos[t] for t in need_t if t in pos]
            gone = [i for i in need if i not in seen and i not in designed]
            if gone:
                return bad("not-durable", "records written before the most recent flush are gone after the process died [%s]" % sig_cfg,
                           "stream positions %r (last completed flush at op %d, died at %r)" % (gone[:10], lastflush, fs.killed_op))
            if any(i >= lastflush for (i, p, t) in fs.written if _mine(p) and t != HEADER):
                out.probe("killed-with-unflushed")
            if fs.killed_op and fs.killed_op[1] in ("rename", "open", "os.open", "fdopen") and fs.renames:
                out.probe("killed-mid-rotation")
        tr.add(phase, kill, sorted(faults.items()), [(p, len(files[p])) for p in ordered], fs.nops)
        return True

    simplify = None


def _no_simplify(self, plan):
    return ()


C23.simplify = _no_simplify
CHECK = C23()
