"""C03 — the scheduler stops when nothing runs and aborts every remaining tasker.

Fault enumeration: for each sampled program a fault-free run counts the recorded action
executions N; then the run is repeated once per crash point (every action execution, capped
and sampled above the cap) x {the action raises an exception, a keyboard interrupt is
delivered inside the action}, plus keyboard interrupts between ticks (real-time mode with a
simulated clock whose sleep raises).  Oracle, from the trace alone: an action's exception is
re-raised out of run(), a keyboard interrupt is not; every tasker still scheduled (not
already aborted, not the one whose own action was cut) receives exactly one abort after the
cut and nothing else runs; every such framer that was started or running exits all frames
it had entered, bottom-up, and so do its auxiliaries, before run() returns.
"""
import hashlib
from fractions import Fraction

from simkit.core import Outcome, Trace
from simkit.driver import Check
from flosim.gen import gen_program, cfg_with, env_table
from flosim.lang import emit
from flosim.harness import run_script, SimCrash
from flosim.cosim import norm_impl
from checks.flocommon import COMPONENTS, outline_of, FloCheck
from substrate.shims import SimTime

ABORT, ABORTED, STARTED, RUNNING = 3, 3, 1, 2


class KbdSleep(SimTime):
    def __init__(self, at):
        SimTime.__init__(self, now=1000.0, default=0.0)
        self.at = at
        self.n = 0

    def sleep(self, d):
        self.n += 1
        if self.n == self.at:
            raise KeyboardInterrupt()
        self.now += max(d, 0.0) + 1e-6


class C03(Check):
    pid = "C03"
    level = "fault_enumeration"
    engine = "flosim"
    design_ref = "§6 C03"
    cfg = cfg_with(p_period=0.35, p_inactive=0.3, nmain=(1, 4), nframes=(1, 5), naux=(0, 2), p_aux=0.3, p_caux=0.25, nslaves=(0, 1), p_fiat=0.3, p_bid=0.3, ticks=(4, 16), p_ctx_extra=0.1, p_poke=0.15, p_abort_end=0.5)
    rule = ("small generated multi-framer programs (nested frames, plain and conditional auxiliaries, slaves, stop / abort bids at "
            "drawn ticks, recorder actions in the enter and exit context of every frame); per program: one fault-free run (whose top-level sends, end tick and final sweep are compared with the reference interpreter), then "
            "one run per crash point = every recorded action execution (all when <= 40, else 40 spread evenly) x {exception, "
            "keyboard interrupt}, plus 3 keyboard interrupts between ticks in real-time mode; non-trivial = a run was cut while "
            "at least two taskers were scheduled and one of them had nested frames entered; distinct = digest of (program, "
            "crash point, kind, sweep)")
    components = dict(COMPONENTS)
    assumptions = ["the tasker whose own action raised is not 'still scheduled': no abort and no exits are demanded for it",
                   "cut points are (tick, action) and the sleep between ticks, not arbitrary bytecode boundaries",
                   "slaves are not scheduled, so the sweep owes them nothing"]
    required_probes = ["exception-reraised", "kbd-swallowed", "kbd-between-ticks", "swept-running-framer", "swept-nested", "crash-in-exit-action", "fault-free-termination-agrees", "cut-with-nothing-else-scheduled"]
    quick_runs = 250
    thorough_runs = 12000
    shrink_fields = []
    shrink_budget = (1500, 90.0)

    def generate(self, S, index, tier):
        plan = gen_program(S.gen, self.cfg)
        plan["crash"] = None     # None: enumerate; else [rec index, kind] or ["sleep", k]
        return plan

    simplify = FloCheck.simplify

    def execute(self, plan):
        out = Outcome()
        tr = Trace(keep=False)
        script = emit(plan["program"])
        P = Fraction(plan["P"])
        et = env_table(plan.get("env"))
        cap = float((plan.get("ticks", 20) + 12) * P) - float(P) / 4
        if plan.get("crash") is not None:
            self._one(plan, script, P, et, cap, plan["crash"], out, tr)
            out.digest = tr.digest()
            return out
        base = run_script(script, period=float(P), env_table=et, cap=cap)
        if not base.built or base.exc is not None:
            out.violate("rejected", "well-formed program rejected or fault-free run raised", "built=%s exc=%r\n%s" % (base.built, base.exc, script[:2500]))
            out.digest = tr.digest()
            return out
        # the fault-free run: which taskers are sent which control at which tick, up to and including the final sweep,
        # against the reference interpreter (when the run ends and who is aborted by the sweep)
        from flosim.model import Model
        from flosim.cosim import norm_model, first_difference
        capticks = plan.get("ticks", 20) + 12
        from flosim.cosim import impl_sweep_order
        model = Model(plan["program"], P, env_table=et, max_ticks=capticks + 50, sweep_order=impl_sweep_order(base.trace))
        model.cap = capticks * P - P / 4
        try:
            model.run()
        except Exception:
            import traceback
            raise RuntimeError("harness: reference model crashed\n%s\n%s" % (traceback.format_exc(), script))

        def tops(events):
            depth, o = 0, []
            for e in events:
                if e[1] == "send":
                    if depth == 0:
                        o.append((e[0], "send", e[2], e[3]))
                    depth += 1
                elif e[1] in ("sent", "raised"):
                    depth -= 1
            return o
        ti, tm = tops(norm_impl(base.trace, P)), tops(norm_model(model.trace, P))
        d = first_difference(ti, tm)
        if d is not None:
            a, b = (ti[d] if d < len(ti) else None), (tm[d] if d < len(tm) else None)
            if a is None or b is None or a[0] != b[0]:
                kind, sig = "termination", "fault-free run ends at a different tick than the reference interpreter (or the final sweep differs)"
            else:
                kind, sig = "schedule", "fault-free run sends a different tasker / control than the reference interpreter"
            out.violate(kind, sig, "top-level send %d: implementation %r, reference %r (implementation has %d, reference %d)\n%s" % (d, a, b, len(ti), len(tm), script[:2500]))
            out.digest = tr.digest()
            return out
        out.probe("fault-free-termination-agrees")
        n = base.state.recs
        points = list(range(n)) if n <= 40 else sorted(set(int(i * (n - 1) / 39.0) for i in range(40)))
        out.subruns = 1
        digests = []
        for i in points:
            for kind in ("exc", "kbd"):
                self._one(plan, script, P, et, cap, [i, kind], out, tr)
                out.subruns += 1
                if out.violations:
                    break
            if out.violations:
                break
        if not out.violations:
            for k in (1, 2, 5):
                self._one(plan, script, P, et, cap, ["sleep", k], out, tr)
                out.subruns += 1
                if out.violations:
                    break
        out.digest = tr.digest()
        out.state_digest = hashlib.sha256((script + repr(points)).encode()).hexdigest()[:16]
        out.steps = out.subruns
        return out

    def _one(self, plan, script, P, et, cap, crash, out, tr):
        if crash[0] == "sleep":
            clk = KbdSleep(crash[1])
            res = run_script(script, period=float(P), env_table=et, cap=cap, real=True, simtime=clk)
        else:
            res = run_script(script, period=float(P), env_table=et, cap=cap, crash_rec=(crash[0], crash[1]))
        concrete = dict(plan)
        concrete["crash"] = list(crash)
        impl = norm_impl(res.trace, P)
        tr.add("crash", crash, len(impl), repr(res.exc[1]) if res.exc else None)

        def bad(kind, sig, detail):
            out.violate(kind, sig, "crash point %r: %s\n%s" % (crash, detail, script[:2500]), plan=concrete)

        hit = res.state.crashed_in is not None or (crash[0] == "sleep" and getattr(clk, "n", 0) >= crash[1])
        if not hit:
            return      # the crash point was not reached in this run (e.g. sleep index beyond the run)
        # (ii) propagation
        if crash[0] != "sleep" and crash[1] == "exc":
            if res.exc is None or not isinstance(res.exc[1], SimCrash):
                return bad("not-reraised", "an action's exception was not re-raised out of run()", "run returned %r" % (res.exc,))
            out.probe("exception-reraised")
        else:
            if res.exc is not None:
                return bad("kbd-raised", "keyboard interrupt propagated out of run()", "run raised %r" % (res.exc,))
            out.probe("kbd-swallowed" if crash[0] != "sleep" else "kbd-between-ticks")
        # locate the cut in the trace
        asts = dict((fr["name"], fr) for fr in plan["program"]["framers"])
        tasks = [fr["name"] for sel in ("front", None, "back") for fr in plan["program"]["framers"]
                 if (None if fr.get("order") == "mid" else fr.get("order")) == sel and fr.get("sched", "active") in ("active", "inactive")]
        stack = []
        status = dict((t, 0) for t in tasks)
        entered = {}        # executor framer -> list of (framer, frame) entered under it, in order
        owner_of = {}       # (framer, frame) -> executor
        cut = None
        crashed = set()
        for idx, e in enumerate(impl):
            if e[1] == "send":
                stack.append(e[2])
            elif e[1] == "sent":
                stack.pop()
                if e[2] in status:
                    status[e[2]] = e[4]
            elif e[1] == "raised":
                crashed.add(e[2])
                if stack:
                    stack.pop()
                if not stack and cut is None:
                    cut = idx
            elif e[1] == "rec":
                ex = stack[-1] if stack else None
                key = (e[3], e[4])
                if e[5] == "enter" and e[2].endswith(".enter"):
                    entered.setdefault(ex, []).append(key)
                    owner_of[key] = ex
                elif e[5] == "exit" and e[2].endswith(".exit"):
                    o = owner_of.get(key)
                    if o is not None and key in entered.get(o, []):
                        entered[o].remove(key)
            if cut is not None:
                break
        if crash[0] == "sleep":
            # the cut is after the last event of the tick in which the k-th sleep happened: find the first ABORT of the sweep
            cut = None
            for idx, e in enumerate(impl):
                pass
            # replay without stopping to rebuild state up to the sweep: the sweep is the trailing run of top-level ABORT sends
            j = len(impl)
            depth = 0
            starts = []
            for idx, e in enumerate(impl):
                if e[1] == "send":
                    if depth == 0:
                        starts.append((idx, e))
                    depth += 1
                elif e[1] in ("sent", "raised"):
                    depth -= 1
            k = len(starts)
            while k > 0 and starts[k - 1][1][3] == ABORT:
                k -= 1
            cut = starts[k][0] - 1 if k < len(starts) else len(impl) - 1
            # rebuild state up to the cut
            stack, status, entered, owner_of = [], dict((t, 0) for t in tasks), {}, {}
            for idx, e in enumerate(impl[:cut + 1]):
                if e[1] == "send":
                    stack.append(e[2])
                elif e[1] == "sent":
                    stack.pop()
                    if e[2] in status:
                        status[e[2]] = e[4]
                elif e[1] == "rec":
                    ex = stack[-1] if stack else None
                    key = (e[3], e[4])
                    if e[5] == "enter" and e[2].endswith(".enter"):
                        entered.setdefault(ex, []).append(key)
                        owner_of[key] = ex
                    elif e[5] == "exit" and e[2].endswith(".exit"):
                        o = owner_of.get(key)
                        if o is not None and key in entered.get(o, []):
                            entered[o].remove(key)
        if cut is None:
            return bad("no-cut", "harness could not locate the cut", "trace %r" % (impl[-5:],))
        victim = [t for t in crashed if t in tasks]
        if res.state.crashed_in and res.state.crashed_in[0].startswith("ax"):
            out.probe("crash-in-aux")
        if res.state.crashed_in and res.state.crashed_in[2].endswith(".exit"):
            out.probe("crash-in-exit-action")
        expect = [t for t in tasks if status[t] != ABORTED and t not in victim]
        if not expect and victim:
            out.probe("cut-with-nothing-else-scheduled")      # the tasker that was cut was the last one scheduled
        tail = impl[cut + 1:]
        # (iii) exactly one ABORT per expected tasker, nothing else sent at top level
        got = []
        depth = 0
        for e in tail:
            if e[1] == "send":
                if depth == 0:
                    got.append((e[2], e[3]))
                depth += 1
            elif e[1] in ("sent", "raised"):
                depth -= 1
        if sorted(got) != sorted((t, ABORT) for t in expect):
            return bad("sweep", "abort sweep differs from 'exactly one abort to every tasker still scheduled'",
                       "after the cut top-level sends were %r; still scheduled (not aborted, not the cut tasker %r): %r" % (got, victim, expect))
        if len(expect) >= 2:
            out.nontrivial = True
        # (iv) exits bottom-up for every swept running framer, and everything entered under it is exited
        pos = 0
        cur = None
        exits = {}
        for e in tail:
            if e[1] == "send" and cur is None:
                cur = e[2]
            elif e[1] == "sent" and e[2] == cur:
                cur = None
            elif e[1] == "rec" and e[5] == "exit" and e[2].endswith(".exit") and _has(asts[e[3]], e[4], "enter"):
                exits.setdefault(cur, []).append((e[3], e[4]))
        for t in expect:
            if status[t] not in (STARTED, RUNNING):
                continue
            out.probe("swept-running-framer")
            own_entered = [k for k in entered.get(t, []) if k[0] == t]
            # bottom-up by the frame hierarchy of the script (not by the order in which the frames happened to be entered)
            depth = {}
            for f in asts[t]["frames"]:
                d, o = 0, f.get("over")
                overs = dict((x["name"], x.get("over")) for x in asts[t]["frames"])
                while o:
                    d += 1
                    o = overs.get(o)
                depth[f["name"]] = d
            want = [k for k in sorted(own_entered, key=lambda k: -depth.get(k[1], 0)) if _has(asts[t], k[1], "exit")]
            got_own = [k for k in exits.get(t, []) if k[0] == t]
            if got_own != want:
                return bad("exits", "a swept running framer did not exit its entered frames bottom-up",
                           "framer %s entered %r; exits after its abort %r; expected %r" % (t, own_entered, got_own, want))
            left = [k for k in entered.get(t, []) if k[0] != t and asts[k[0]].get("sched") == "aux" and _has(asts[k[0]], k[1], "exit") and k not in exits.get(t, [])]
            if left:
                return bad("aux-left", "auxiliary frames of a swept framer were not exited", "framer %s: still entered %r" % (t, left))
            fr = asts[t]
            if own_entered and len(own_entered) >= 2:
                pass
        # suspended probe
        for t in expect:
            own = [k for k in entered.get(t, []) if k[0] == t]
            if len(own) >= 2:
                out.probe("swept-nested")

    def directed(self):
        # a framer with a nested outline that is stopped and started again by another framer: cuts in its second life
        import json
        import os
        from simkit.core import uncanon
        d = os.path.join(os.path.dirname(os.path.abspath(__file__)), "directed")
        # ... and a framer cut while a conditional auxiliary of its top frame runs and its active frame is under a later child
        return [uncanon(json.load(open(os.path.join(d, n + ".json")))) for n in ("flo-stop-then-restart-nested", "flo-cut-while-suspended-under-later-child")]


def _has(fr_ast, frame, ctx):
    for f in fr_ast["frames"]:
        if f["name"] == frame:
            return any(a["k"] == "rec" and a["ctx"] == ctx and a["tag"].endswith("." + ctx) for a in f["acts"])
    return False


CHECK = C03()
