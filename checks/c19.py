"""C19 — share stamps, fields and decks follow their documented rules.

Real: Store (clock only), Share, Data, Deck.  Simulated: the store clock — the observable
(share.stamp) is a function of the clock at the moment of each operation, so operations are
interleaved with clock advances, with a detached share (no store) and with store
replacement.  A 40-line model is compared after every step.  (The weakest fit for this
technique among the claimed properties: there is no fault or I/O in it, only the clock.)
"""
import hashlib

from simkit.core import Outcome, Trace
from simkit.driver import Check

GOOD = ["value", "a", "b2", "long_name", "X", "camelCase", "z_9"]
BAD = ["_private", "9lives", "has-dash", "sp ace", "", "__class__", "_change", "dot.ted"]


class Model(object):
    def __init__(self):
        self.fields = []     # [key, value] in insertion order
        self.stamp = None
        self.deck = []

    def get(self, k):
        for kk, v in self.fields:
            if kk == k:
                return True, v
        return False, None

    def put(self, k, v):
        for item in self.fields:
            if item[0] == k:
                item[1] = v
                return False
        self.fields.append([k, v])
        return True

    def delete(self, k):
        for i, item in enumerate(self.fields):
            if item[0] == k:
                del self.fields[i]
                return True
        return False


class C19(Check):
    pid = "C19"
    level = "exploration"
    engine = "clock"
    design_ref = "§6 C19"
    rule = ("seeded sequences of value-set / update / change / create (single field and the general form: several positional dicts / duple lists plus keywords) / item get, set and delete with valid and invalid field "
            "names / deck push, pull, gulp (incl. None), spew, interleaved with store clock advances, detaching the share "
            "from its store and attaching it to another store with a different time; a model is compared after every step; "
            "non-trivial = the clock moved between two stamping operations or an operation was rejected; distinct = digest "
            "of (operation kinds, resulting stamps)")
    components = {"real": ["ioflo.base.storing.Share", "ioflo.base.storing.Data", "ioflo.base.storing.Deck", "ioflo.base.storing.Store (stamp)"],
                  "stub": ["store clock advanced by the simulator"]}
    assumptions = ["invalid names are exercised one field per call (what a multi-field call does after a rejected name is not stated)"]
    required_probes = ["pop-present", "pop-default-is-the-stored-object", "rejected-name", "create-existing", "create-new", "no-store", "store-replaced", "spew-empty", "gulp-none", "delete-readd",
                       "multi-source", "create-multi-last-source-adds-nothing"]
    quick_runs = 30000
    thorough_runs = 1500000
    shrink_fields = ["ops"]

    def directed(self):
        return [{"ops": [["value", 1], ["adv", 3], ["create", "a", 2], ["adv", 1], ["create", "a", 9], ["change", "a", 5], ["adv", 2], ["update", "b2", 1],
                         ["set", "_private", 1], ["del", "a"], ["set", "a", 7], ["detach"], ["value", 4], ["attach", 50], ["update", "a", 1],
                         ["push", 1], ["gulp", None], ["gulp", 2], ["gulp", 0], ["pull"], ["spew"], ["spew"], ["spew"], ["get", "zz"], ["create", "9lives", 1],
                         ["adv", 2], ["multi", "create", [["dict", [["q1", 1]]], ["duples", [["a", 3], ["q2", 2]]], ["kw", [["a", 4]]]]],
                         ["adv", 1], ["multi", "update", [["duples", [["a", 5], ["a", 6]]], ["kw", [["q1", 0]]]]], ["adv", 1], ["multi", "change", [["dict", [["q3", 1]]]]]]}]

    def generate(self, S, index, tier):
        g = S.gen
        ops = []
        for _ in range(g.randint(1, 40)):
            r = g.random()
            name = g.choice(GOOD) if g.random() < 0.85 else g.choice(BAD)
            v = g.choice([0, 1, -2.5, "s", None, True, [1, 2]])
            if r < 0.10:
                ops.append(["value", v])
            elif r < 0.22:
                ops.append(["update", name, v])
            elif r < 0.34:
                ops.append(["change", name, v])
            elif r < 0.40:
                ops.append(["create", name, v])
            elif r < 0.46:
                # the general call form: positional dicts / lists of duples followed by keywords, valid names only
                srcs = []
                for _ in range(g.randint(1, 3)):
                    srcs.append([g.choice(["dict", "duples"]), [[g.choice(GOOD), g.choice([0, 1, -2.5, "s", None, True])] for _ in range(g.randint(0, 2))]])
                if g.random() < 0.6:
                    srcs.append(["kw", [[g.choice(GOOD), g.choice([0, 1, "s", None])] for _ in range(g.randint(0, 2))]])
                ops.append(["multi", g.choice(["create", "create", "update", "change"]), srcs])
            elif r < 0.54:
                ops.append(["set", name, v])
            elif r < 0.60:
                ops.append(["get", g.choice(GOOD)])      # reading by an invalid name is outside the statement
            elif r < 0.67:
                if g.random() < 0.4:
                    # pop with / without a default; the default is sometimes the very object a field holds (None, 0, True, "s")
                    ops.append(["pop", g.choice(GOOD)] + ([g.choice([None, 0, 1, "s", True, "dflt"])] if g.random() < 0.7 else []))
                else:
                    ops.append(["del", g.choice(GOOD)])
            elif r < 0.77:
                ops.append(["adv", g.choice([0, 1, 1, 2, 8])])
            elif r < 0.80:
                ops.append(["detach"])
            elif r < 0.83:
                ops.append(["attach", g.choice([0, 5, 100])])
            elif r < 0.88:
                ops.append(["push", g.choice([1, "x", None, 0, "", False])])
            elif r < 0.92:
                ops.append(["gulp", g.choice([2, "y", None, None, 0, "", False, [], {}])])      # falsy elements are elements: only None is ignored
            elif r < 0.96:
                ops.append(["pull"])
            else:
                ops.append(["spew"])
        return {"ops": ops}

    def execute(self, plan):
        from ioflo.base.storing import Store, Share
        out = Outcome()
        tr = Trace(keep=False)
        store = Store(stamp=1.0)
        sh = Share(name="t.share", store=store)
        m = Model()
        cur = store
        kinds = []
        last_stamp_time = None
        for op in plan["ops"]:
            code = op[0]
            now = cur.stamp if cur is not None else None
            exc = None
            ret = None
            want_exc = False
            want_ret = None
            try:
                if code == "adv":
                    if cur is not None:
                        cur.advanceStamp(op[1] * 0.125)
                elif code == "detach":
                    sh.changeStore(None)
                    cur = None
                    out.probe("no-store")
                elif code == "attach":
                    cur = Store(stamp=float(op[1]))
                    sh.changeStore(cur)
                    out.probe("store-replaced")
                elif code == "value":
                    sh.value = op[1]
                    m.put("value", op[1])
                    m.stamp = now
                elif code in ("update", "change", "create", "set"):
                    k, v = op[1], op[2]
                    bad = k in BAD
                    if bad:
                        want_exc = True
                        out.probe("rejected-name")
                    if code == "update":
                        sh.update(**{k: v}) if k.isidentifier() or True else None
                    elif code == "change":
                        sh.change(**{k: v})
                    elif code == "create":
                        sh.create(**{k: v})
                    else:
                        sh[k] = v
                    if not bad:
                        if code == "create":
                            had, _ = m.get(k)
                            if had:
                                out.probe("create-existing")
                            else:
                                m.put(k, v)
                                m.stamp = now
                                out.probe("create-new")
                        else:
                            had, _ = m.get(k)
                            m.put(k, v)
                            if code == "update":
                                m.stamp = now
                elif code == "multi":
                    pa, kwa, flat = [], {}, []
                    for kind, pairs in op[2]:
                        if kind == "kw":
                            seenk = {}
                            for k, v in pairs:
                                seenk[k] = v
                            kwa = seenk
                            flat.extend(seenk.items())
                        elif kind == "dict":
                            d = {}
                            for k, v in pairs:
                                d[k] = v
                            pa.append(d)
                            flat.extend(d.items())
                        else:
                            pa.append([(k, v) for k, v in pairs])
                            flat.extend((k, v) for k, v in pairs)
                    getattr(sh, op[1])(*pa, **kwa)
                    out.probe("multi-source")
                    added = []
                    for k, v in flat:
                        had, _ = m.get(k)
                        if op[1] == "create":
                            if not had:
                                m.put(k, v)
                                added.append(k)
                        else:
                            m.put(k, v)
                    if op[1] == "update" or (op[1] == "create" and added):
                        m.stamp = now
                    if op[1] == "create" and added and flat[-1][0] not in added:
                        out.probe("create-multi-last-source-adds-nothing")
                elif code == "get":
                    had, v = m.get(op[1])
                    want_exc = not had
                    want_ret = v
                    ret = sh[op[1]]
                elif code == "del":
                    had, _ = m.get(op[1])
                    want_exc = not had
                    del sh[op[1]]
                    m.delete(op[1])
                    out.probe("delete")
                elif code == "pop":
                    had, val = m.get(op[1])
                    want_exc = not had and len(op) < 3
                    want_ret = val if had else (op[2] if len(op) > 2 else None)
                    ret = sh.pop(op[1], *op[2:])
                    if had:
                        m.delete(op[1])
                        out.probe("pop-present")
                        if len(op) > 2 and val is op[2]:
                            out.probe("pop-default-is-the-stored-object")
                elif code == "push":
                    sh.push(op[1])
                    m.deck.append(op[1])
                elif code == "gulp":
                    sh.deck.gulp(op[1])
                    if op[1] is None:
                        out.probe("gulp-none")
                    else:
                        m.deck.append(op[1])
                elif code == "pull":
                    want_exc = not m.deck
                    want_ret = m.deck[0] if m.deck else None
                    ret = sh.pull()
                    m.deck.pop(0)
                elif code == "spew":
                    if not m.deck:
                        out.probe("spew-empty")
                    want_ret = m.deck.pop(0) if m.deck else None
                    ret = sh.deck.spew()
            except (KeyError, AttributeError, IndexError, TypeError) as ex:
                exc = ex
            kinds.append((code, exc is not None))
            tr.add(op, type(exc).__name__ if exc else None, repr(ret), sh.stamp)
            label = "%s %r" % (code, op[1:] if len(op) > 1 else "")
            if code == "create" and want_exc and exc is None:
                want_exc = False   # create may ignore an invalid name silently; it must not change anything (compared below)
            if (exc is not None) != want_exc:
                out.violate("exception", "%s %s" % (code, "raised" if exc else "accepted an invalid / missing name"),
                            "%s: raised %r, expected %s" % (label, exc, "an exception" if want_exc else "none"))
                break
            if code in ("get", "pull", "spew", "pop") and exc is None and ret != want_ret:
                out.violate("result", "%s returned wrong element" % code, "%s returned %r want %r" % (label, ret, want_ret))
                break
            try:
                items = [[k, v] for k, v in sh.items()]
                keys = list(sh.keys())
            except Exception as ex:
                out.violate("fields", "reading the fields raised after %s" % code, "%s: items() raised %r" % (label, ex))
                break
            if items != m.fields or keys != [k for k, v in m.fields]:
                out.violate("fields", "fields differ from model after %s" % code, "%s: items %r model %r" % (label, items, m.fields))
                break
            if sh.stamp != m.stamp:
                out.violate("stamp", "stamp differs from model after %s" % code, "%s: stamp %r model %r (store time %r)" % (label, sh.stamp, m.stamp, now))
                break
            if list(sh.deck) != m.deck:
                out.violate("deck", "deck differs from model after %s" % code, "%s: deck %r model %r" % (label, list(sh.deck), m.deck))
                break
            if code == "del" and exc is None:
                pass
            out.steps += 1
        # delete followed by re-add lands at the end (probe only)
        seen_del = set()
        for op in plan["ops"]:
            if op[0] in ("del", "pop"):
                seen_del.add(op[1])
            elif op[0] in ("update", "change", "create", "set") and op[1] in seen_del:
                out.probe("delete-readd")
        out.digest = tr.digest()
        out.state_digest = hashlib.sha256(repr(kinds).encode()).hexdigest()[:16]
        out.nontrivial = any(k[1] for k in kinds) or any(o[0] == "adv" and o[1] for o in plan["ops"])
        return out


CHECK = C19()
