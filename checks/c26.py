"""C26 — a TCP server keeps one live connection entry per peer address.

Real: Server, ServerTls (stub TLS), Incomer(Tls).  Simulated: sockets, peers, an
ephemeral-port pool of 2-3 ports so that a crashed client's address is reused while the
server still holds the stale entry (real loopback almost never produces that).
"""
import hashlib
import ssl

from simkit.core import Outcome, Trace
from simkit.driver import Check
from netharn.world import world
from netharn.tcp import PORT
from substrate.net import SimSocket
from substrate.tls import StubContext, SimTlsSocket


class C26(Check):
    pid = "C26"
    level = "exploration"
    engine = "netsim.tcp"
    design_ref = "§6 C26"
    rule = ("seeded histories of connect / crash (vanish without a packet) / abort / close / removeIx / closeIx / "
            "serviceConnects / serviceAll steps against Server and ServerTls with 2-4 peers drawing source ports from a "
            "pool of 2-3 (forces peer-address reuse); non-trivial = an address was accepted again while a stale entry "
            "existed, or an entry was removed; distinct = digest of the per-step (table size, accepted count)")
    components = {"real": ["ioflo.aio.tcp.serving.Server", "ioflo.aio.tcp.serving.ServerTls", "Incomer / IncomerTls"],
                  "stub": ["socket module", "TLS record layer", "peers (raw scripted endpoints)"]}
    assumptions = ["same peer address can be accepted twice while the old socket is still held (measured on Linux loopback with a fixed source port and abortive close)"]
    required_probes = ["addr-reuse-while-stale", "remove", "tls", "plain", "closeIx"]
    quick_runs = 20000
    thorough_runs = 1000000
    shrink_fields = ["ops"]

    def directed(self):
        base = [["connect", 0], ["service"], ["crash", 0], ["connect", 1], ["service"], ["service"], ["remove", 0], ["service"]]
        return [{"tls": False, "pool": [50001], "ops": base}, {"tls": True, "pool": [50001], "ops": base + [["service"]]}]

    def generate(self, S, index, tier):
        g = S.gen
        n = g.randint(2, 30)
        ops = []
        for _ in range(n):
            r = g.random()
            if r < 0.28:
                ops.append(["connect", g.randint(0, 3)])
            elif r < 0.40:
                ops.append([g.choice(["crash", "crash", "abort", "close"]), g.randint(0, 3)])
            elif r < 0.75:
                ops.append([g.choice(["service", "service", "serviceAll"])])
            elif r < 0.90:
                # removeIx, or closeIx: the entry is closed but stays in the table (a stale entry without a socket)
                ops.append([g.choice(["remove", "remove", "closeIx"]), g.randint(0, 2)])
            else:
                ops.append(["send", g.randint(0, 3)])
        return {"tls": g.random() < 0.4, "pool": [50001, 50002, 50003][:g.choice([1, 2, 2, 3])], "ops": ops}

    def execute(self, plan):
        from ioflo.aio.tcp import serving
        out = Outcome()
        tr = Trace(keep=False)
        abstract = hashlib.sha256()
        tls = plan["tls"]
        out.probe("tls" if tls else "plain")
        name = "ServerTls" if tls else "Server"
        with world(out=out, cap=64, eph=plan["pool"], trace=tr) as net:
            ctx = StubContext(16)
            srv = serving.ServerTls(context=ctx, ha=("", PORT), bufsize=16) if tls else serving.Server(ha=("", PORT), bufsize=16)
            if not srv.reopen():
                raise RuntimeError("harness: server did not open")
            lst = srv.ss
            peers = {}      # slot -> (raw, far, state)
            accepted = []   # server-side sockets in accept order (from the simulator)
            model = {}      # ca -> newest accepted server-side socket
            real_accept = lst.accept

            def accept_spy():
                s, ca = real_accept()
                accepted.append(s)
                model[ca] = s
                return s, ca
            lst.accept = accept_spy

            def under(ix):
                cs = ix.cs
                return getattr(cs, "sock", cs)

            def fail(kind, detail):
                out.violate(kind, "%s:%s" % (name, kind), detail)

            def call(label, fn):
                try:
                    fn()
                    return True
                except Exception as ex:
                    out.violate("exception", "%s:%s:%s" % (name, label, type(ex).__name__), "%s raised %r" % (label, ex))
                    return False

            def pump_peers():
                for slot, p in list(peers.items()):
                    raw, far, st = p
                    if raw.closed:
                        continue
                    if st["phase"] == 0:
                        try:
                            r = raw.connect_ex(("127.0.0.1", PORT))
                        except OSError:
                            continue
                        if r == 0:
                            st["phase"] = 1
                    elif tls and not far.done:
                        try:
                            far.do_handshake()
                        except (ssl.SSLWantReadError, ssl.SSLWantWriteError):
                            pass
                        except OSError:
                            pass
                net.deliver_all()

            for op in plan["ops"]:
                tr.add("op", op)
                code = op[0]
                ok = True
                if code == "connect":
                    slot = op[1]
                    old = peers.get(slot)
                    if old is not None and not old[0].closed:
                        continue
                    raw = SimSocket(net, "peer")
                    far = SimTlsSocket(raw, False, ctx) if tls else raw
                    peers[slot] = (raw, far, {"phase": 0})
                    try:
                        raw.connect_ex(("127.0.0.1", PORT))
                    except OSError:
                        del peers[slot]
                        continue
                    stale = [ca for ca, s in model.items() if ca == raw.laddr and ca in srv.ixes and under(srv.ixes[ca]) is s]
                    if stale:
                        out.probe("addr-reuse-while-stale")
                    pump_peers()
                elif code in ("crash", "abort", "close"):
                    p = peers.get(op[1])
                    if p is None or p[0].closed:
                        continue
                    {"crash": p[0].vanish, "abort": p[0].abort, "close": p[0].close}[code]()
                    net.deliver_all()
                elif code == "send":
                    p = peers.get(op[1])
                    if p is None or p[0].closed or p[2]["phase"] == 0 or (tls and not p[1].done):
                        continue
                    try:
                        p[1].send(b"hi")
                    except OSError:
                        pass
                    net.deliver_all()
                elif code == "service":
                    pump_peers()
                    ok = call("serviceConnects", srv.serviceConnects)
                    pump_peers()
                elif code == "serviceAll" and any(ix.cs is None for ix in list(srv.ixes.values())):
                    # an entry the application closed with closeIx but did not remove: receiving / sending on it is outside the
                    # statement (the library dereferences the missing socket); only the accepting side is serviced
                    pump_peers()
                    ok = call("serviceConnects", srv.serviceConnects)
                    pump_peers()
                elif code == "serviceAll":
                    pump_peers()
                    try:
                        srv.serviceAll()
                    except OSError as ex:
                        # EPIPE etc. from a dead peer legitimately propagates (C25); the server is then "ended"
                        tr.add("serviceAll-oserror", ex.errno)
                        break
                    except Exception as ex:
                        out.violate("exception", "%s:serviceAll:%s" % (name, type(ex).__name__), "serviceAll raised %r" % (ex,))
                        ok = False
                    pump_peers()
                elif code in ("remove", "closeIx"):
                    keys = list(srv.ixes.keys())
                    if not keys:
                        continue
                    ca = keys[op[1] % len(keys)]
                    ix = srv.ixes[ca]
                    sock = under(ix) if ix.cs is not None else None
                    if code == "remove":
                        ok = call("removeIx", lambda: srv.removeIx(ca))
                        out.probe("remove")
                        if ok:
                            if sock is not None and not sock.closed:
                                fail("remove-not-closed", "removeIx(%r) left its socket open" % (ca,))
                                ok = False
                            if ca in srv.ixes:
                                fail("remove-still-present", "removeIx(%r) left the entry" % (ca,))
                                ok = False
                            if sock is not None and model.get(ca) is sock:
                                del model[ca]
                    else:
                        ok = call("closeIx", lambda: srv.closeIx(ca))
                        out.probe("closeIx")
                        if ok and sock is not None and not sock.closed:
                            fail("remove-not-closed", "closeIx(%r) left its socket open" % (ca,))
                            ok = False
                        if ok and sock is not None and model.get(ca) is sock:
                            del model[ca]       # the connection is gone; its entry (now without a socket) may stay until it is removed or replaced
                if not ok:
                    break
                # invariants after every step
                table = dict(srv.ixes.items())
                pend = dict(srv.cxes.items()) if tls else {}
                for ca, ix in list(table.items()) + list(pend.items()):
                    if ix.cs is None:
                        continue
                    s = under(ix)
                    if s.raddr != ca:
                        fail("wrong-key", "entry %r holds a socket whose peer is %r" % (ca, s.raddr))
                        ok = False
                for ca, s in model.items():
                    ents = [e for e in (pend.get(ca), table.get(ca)) if e is not None and e.cs is not None]
                    if not ents:
                        # a connection whose peer already went away may have been dropped during its TLS handshake
                        if not tls or (s.peer is not None and not s.peer.closed):
                            fail("missing-entry", "accepted peer %r has no entry (ixes=%r)" % (ca, list(table)))
                            ok = False
                    elif not any(under(e) is s for e in ents) and (not tls or (s.peer is not None and not s.peer.closed)):
                        fail("stale-entry", "no entry for %r holds the newest accepted connection" % (ca,))
                        ok = False
                for ca in table:
                    if ca not in model and table[ca].cs is not None:
                        fail("extra-entry", "entry %r has no accepted connection in the model" % (ca,))
                        ok = False
                live = set(id(under(ix)) for ix in list(table.values()) + list(pend.values()) if ix.cs is not None)
                for s in accepted:
                    # a connection whose peer already reset it is down: shutdown() on it fails with ENOTCONN (measured), which
                    # the library swallows; nothing more can be demanded of the replacement than the attempt
                    if id(s) not in live and not (s.closed or s.shut_wr or s.got_rst):
                        fail("stale-not-shutdown", "replaced / removed connection from %r was neither shut down nor closed" % (s.raddr,))
                        ok = False
                abstract.update(b"%d,%d;" % (len(table), len(accepted)))
                out.steps += 1
                if not ok:
                    break
        out.digest = tr.digest()
        out.state_digest = abstract.hexdigest()[:16]
        out.nontrivial = bool(out.probes.get("addr-reuse-while-stale") or out.probes.get("remove"))
        return out


CHECK = C26()
