"""C11 — framer elapsed / recurred clocks drive timeout and repeat exactly."""
from fractions import Fraction

from checks.flocommon import FloCheck
from flosim.gen import cfg_with


class C11(FloCheck):
    pid = "C11"
    design_ref = "§6 C11"
    cfg = cfg_with(periods=["0.125", "0.0625", "0.1", "0.05", "0.2", "0.3", "0.25"], p_timeout=0.6, p_repeat=0.5, p_go=0.6, naux=(0, 1), p_aux=0.15, p_caux=0.1,
                   nslaves=(0, 0), p_fiat=0, p_bid=0.05, p_period=0.35, ticks=(8, 40))
    rule = ("generated frame sequences using 'timeout T', 'repeat N' and conditions on elapsed / recurred (>=, >, ==) with T on the "
            "grid k*P, k in 0..6, N in 0..5, tick periods binary-exact and decimal {1/16, 1/8, 1/4, 0.05, 0.1, 0.2, 0.3}, framers "
            "with their own periods, forced re-entry ('go me'); the decision (the tick at which a frame is left) is compared "
            "exactly with the reference interpreter working in rational arithmetic, the reported elapsed / recurred after each "
            "run with (ticks since the outline last changed) * P within 1e-9 and the run count; non-trivial = a timeout or "
            "repeat or clock condition fired; distinct = digest of per-run (status, active outline)")
    assumptions = ["reported elapsed may differ from the ideal by float rounding (1e-9); the tick at which the frame is left may not"]
    required_probes = ["decimal-period", "timeout-fired", "reentry-reset", "own-period", "clone-family", "clone-family-clock-fired"]
    CLONE_EVERY = 6       # every sixth run: clones of clock-driven moot originals against their textual-copy twins

    def generate(self, S, index, tier):
        if index >= 0 and index % self.CLONE_EVERY == self.CLONE_EVERY - 1:
            from checks.c12 import gen_plan
            plan = gen_plan(S.gen, periods=self.cfg["periods"], p_clock=0.8)
            plan["family"] = "clone"
            return plan
        return FloCheck.generate(self, S, index, tier)

    def simplify(self, plan):
        if plan.get("family") == "clone":
            return ()
        return FloCheck.simplify(self, plan)

    def execute(self, plan):
        if plan.get("family") != "clone":
            return FloCheck.execute(self, plan)
        # 'for every framer': a clone's timeout / repeat must fire at the ticks at which those of an ordinary framer holding
        # a textual copy of the same frames fire (the clone's implicit clock conditions must read the clone's own clocks)
        from checks.c12 import CHECK as C12
        out = C12.execute(plan)
        for v in out.violations:
            if v.kind == "clone-differs":
                v.kind, v.signature = "clone-clocks", "a cloned framer's timeout / repeat does not fire when that of an identical ordinary framer does"
        out.probes = dict((k, n) for k, n in out.probes.items() if k in ("two-clones-of-one-original",))
        out.probe("clone-family")
        if "'text': 'timeout " in repr(plan) or "'text': 'repeat " in repr(plan):
            out.probe("clone-family-clock-fired")
        return out

    def invariants(self, plan, res, impl, out):
        P = Fraction(plan["P"])
        own = {}
        for fr in plan["program"]["framers"]:
            for f in fr["frames"]:
                own[f["name"]] = fr["name"]
        last_change = {}
        runs = {}
        depth = 0
        span_enters = set()
        for e in impl:
            if e[1] == "send":
                depth += 1
                if depth == 1:
                    span_enters = set()
            elif e[1] == "rec" and e[5] == "enter" and e[2].endswith(".enter"):
                span_enters.add(e[3])
            elif e[1] == "sent":
                depth -= 1
                name, control, status, snap = e[2], e[3], e[4], e[5]
                if snap is None or status not in (1, 2):
                    if snap is not None and status in (0, 3):
                        last_change.pop(name, None)
                    continue
                if name in span_enters:
                    last_change[name] = e[0]
                    runs[name] = 0
                    if control == 2:
                        out.probe("reentry-reset")
                elif control == 2 and name in last_change:
                    runs[name] = runs.get(name, 0) + 1
                if name in last_change and depth == 0 and ((control == 2 and status == 2) or (control == 1 and status == 1 and name in span_enters)):
                    want = (e[0] - last_change[name]) * P
                    if name in span_enters:
                        want = Fraction(0)
                    if abs(float(snap[2]) - float(want)) > 1e-9:
                        out.violate("elapsed", "reported elapsed is not the time since the outline last changed",
                                    "tick %d framer %s: elapsed %r, outline changed at tick %d, tick period %s" % (e[0], name, snap[2], last_change[name], plan["P"]))
                        return
                    if snap[3] != runs.get(name, 0):
                        out.violate("recurred", "reported recurred is not the number of runs since the outline last changed",
                                    "tick %d framer %s: recurred %r, runs since change %r" % (e[0], name, snap[3], runs.get(name, 0)))
                        return

    def probes(self, plan, res, impl, out):
        if plan["P"] in ("0.1", "0.05", "0.2", "0.3"):
            out.probe("decimal-period")
        if any(fr.get("period") for fr in plan["program"]["framers"]):
            out.probe("own-period")
        text = repr(plan["program"])
        if "'k': 'timeout'" in text or "'t': 'elapsed'" in text:
            trans = set()
            for e in impl:
                if e[1] == "sent" and e[5]:
                    trans.add((e[2], e[5][0]))
            if len(trans) > len(set(t[0] for t in trans)):
                out.probe("timeout-fired")
                out.nontrivial = True


CHECK = C11()
