"""A simulated world: Net + patched ioflo modules, restored on exit."""
import collections.abc  # noqa
import contextlib

from substrate.net import Net


def quiet_console():
    from ioflo.aid.consoling import getConsole
    c = getConsole()
    c._verbosity = -1 if False else 0
    return c


_PATCH = [
    ("ioflo.aio.tcp.clienting", "socket", "cli"),
    ("ioflo.aio.tcp.serving", "socket", "srv"),
    ("ioflo.aio.aioing", "socket", "dns"),
    ("ioflo.aio.udp.udping", "socket", "udp"),
    ("ioflo.aio.proto.stacking", "socket", "stk"),
    ("ioflo.aio.http.clienting", "socket", "hcli"),
    ("ioflo.aio.http.serving", "socket", "hsrv"),
]


def clear_registries():
    """ioflo keeps every Store / Tasker / ... ever created in class-level registries (Registrar.Names).  A worker that
    executes hundreds of thousands of runs would grow without bound (about 10 KB per run), so each world starts and
    ends with empty registries; this also makes automatically generated names independent of earlier runs."""
    from ioflo.base import registering
    todo = [registering.Registrar]
    while todo:
        c = todo.pop()
        todo.extend(c.__subclasses__())
        if "Names" in c.__dict__ or c is registering.Registrar:
            c.Clear()


class _Sink(object):
    """Where the console writes when a run turns its verbosity up: nowhere (the check's own output stays parseable)."""
    name = "<sink>"
    closed = False

    def write(self, msg):
        return len(msg)

    def flush(self):
        pass


@contextlib.contextmanager
def world(faults=None, out=None, cap=64, latency=0, eph=None, trace=None, extra=(), verbosity=0):
    """Yields a Net with every ioflo module's `socket` name replaced; `extra` is a list of
    (module name, attribute, replacement) applied and restored as well."""
    import importlib
    import sys
    con = quiet_console()
    if verbosity:
        # the console's verbosity is configuration like any other knob: diagnostic branches run real code too
        con._verbosity = verbosity
        con._file = _Sink()
    clear_registries()
    net = Net(faults=faults, out=out, cap=cap, latency=latency, eph=eph, trace=trace)
    saved = []
    try:
        for modname, attr, role in _PATCH:
            mod = importlib.import_module(modname)
            saved.append((mod, attr, getattr(mod, attr)))
            setattr(mod, attr, net.module(role))
        for modname, attr, repl in extra:
            mod = importlib.import_module(modname)
            saved.append((mod, attr, getattr(mod, attr)))
            setattr(mod, attr, repl)
        yield net
    finally:
        for mod, attr, val in reversed(saved):
            setattr(mod, attr, val)
        if verbosity:
            con._verbosity = 0
            con._file = sys.stdout
        clear_registries()
