"""HTTP harness pieces: simulated world with clock / calendar / randomness shims, message generators."""
import contextlib
import random as _random

from netharn.world import world
from substrate.shims import SimTime, SimDatetimeModule, SeededRandomModule

HPORT = 8080


class _SysShim(object):
    """`sys` as seen by ioflo.aio.http.serving: stderr goes to a buffer (the Valet reports parse errors there)."""

    def __init__(self):
        import io
        import sys
        self._sys = sys
        self.stderr = io.StringIO()

    def __getattr__(self, name):
        return getattr(self._sys, name)

TOKENS = ["X-Alpha", "x-beta", "X-GAMMA", "Accept", "X-Req-Id", "Cache-Control", "X-Trace", "Etag"]


@contextlib.contextmanager
def http_world(seed=0, extra=(), **kw):
    clock = SimTime(now=0.0, default=0.0)
    extra = [
        ("ioflo.aio.http.serving", "datetime", SimDatetimeModule(clock)),
        ("ioflo.aio.http.clienting", "random", SeededRandomModule(_random.Random(seed))),
        ("ioflo.aio.http.clienting", "time", clock),
        ("ioflo.aio.http.serving", "sys", _SysShim()),
    ] + list(extra)
    with world(extra=extra, **kw) as net:
        net.clock = clock
        yield net


def header_value(g):
    alphabet = "abcdefghijklmnopqrstuvwxyzABCDEFGHIJKLMNOPQRSTUVWXYZ0123456789-_.;=/ ,"
    n = g.randint(1, 12)
    v = "".join(g.choice(alphabet) for _ in range(n)).strip()
    return v or "v"


def gen_headers(g, n=None, exclude=()):
    names = [t for t in TOKENS if t.lower() not in exclude]
    g.shuffle(names)
    return [(nm, header_value(g)) for nm in names[:g.randint(0, 4) if n is None else n]]


def body_bytes(g, n):
    # includes CR, LF, colon and digits on purpose: bodies must never be parsed as lines
    alphabet = b"abcXYZ012\r\n:; \x00\xff"
    return bytes(g.choice(alphabet) for _ in range(n))


def chunk_encode(g, body, with_ext=True, with_trailers=True):
    """Returns (bytes, parms dict, trailers list)."""
    out = bytearray()
    parms = {}
    pos = 0
    while pos < len(body):
        n = g.randint(1, max(1, min(g.choice([9, 40]), len(body) - pos)))
        line = ("%x" % n) if g.random() < 0.7 else ("%X" % n)
        if with_ext and g.random() < 0.4:
            nm = g.choice(["e1", "e2", "name"])
            if g.random() < 0.5:
                val = g.choice(["v", "42", "tok"])
                line += ";%s=%s" % (nm, val)
                parms[nm.encode()] = val.encode()
            else:
                line += ";%s" % nm
                parms[nm.encode()] = None
        out += line.encode() + b"\r\n" + body[pos:pos + n] + b"\r\n"
        pos += n
    out += b"0\r\n"
    trailers = []
    if with_trailers and g.random() < 0.5:
        trailers = [("X-Trail-%d" % i, header_value(g)) for i in range(g.randint(1, 2))]
        for k, v in trailers:
            out += ("%s: %s\r\n" % (k, v)).encode("latin-1")
    out += b"\r\n"
    return bytes(out), parms, trailers


def pack_headers(headers, nospace=()):
    out = bytearray()
    for i, (k, v) in enumerate(headers):
        sep = ":" if i in nospace else ": "
        out += ("%s%s%s\r\n" % (k, sep, v)).encode("latin-1")
    return bytes(out)


def split_bytes(data, cuts):
    """cuts: sorted list of positions; returns the pieces (empty pieces dropped)."""
    pieces = []
    prev = 0
    for c in sorted(set(min(max(c, 0), len(data)) for c in cuts)):
        if c > prev:
            pieces.append(data[prev:c])
            prev = c
    if prev < len(data):
        pieces.append(data[prev:])
    return pieces
