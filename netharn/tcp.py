"""Set-up helpers for TCP / TLS / serial transports inside a simulated world."""
import ssl

from substrate.net import SimSocket
from substrate.tls import StubContext, SimTlsSocket
from substrate.serial import SimSerialOs

PORT = 6000


class Endpoint(object):
    """A system-under-test transport plus the harness-side far end."""

    def __init__(self):
        self.sut = None        # object with tx/serviceTxes/serviceReceives/rxbs/txes
        self.sock = None       # SimSocket under the SUT
        self.tls = None        # SimTlsSocket under the SUT if TLS
        self.peer = None       # raw far-end SimSocket (or SimTlsSocket)
        self.peer_raw = None
        self.server = None
        self.client = None
        self.wlog = None
        self.serial = None
        self.da = None         # destination address the SUT logs for tx

    # bytes the SUT's socket accepted, in order (plaintext for TLS)
    def accepted(self):
        if self.serial is not None:
            return bytes(self.serial.written)
        if self.tls is not None:
            return bytes(self.tls.tx_plain)
        return bytes(self.sock.txpipe.total_in) if self.sock.txpipe is not None else b""

    def accepted_chunks(self):
        if self.serial is not None:
            return self.serial.tx_chunks
        if self.tls is not None:
            return self.tls.tx_chunks
        return self.sock.tx_chunks

    def received_chunks(self):
        if self.serial is not None:
            return self.serial.rx_chunks
        if self.tls is not None:
            return self.tls.rx_chunks
        return self.sock.rx_chunks


def _pump_handshake(net, a, b, limit=50):
    """a, b: callables making one handshake attempt each; returns when both report done."""
    for _ in range(limit):
        da = a()
        net.deliver_all()
        db = b()
        net.deliver_all()
        if da and db:
            return True
    return False


def _try_hs(t):
    def f():
        try:
            t.do_handshake()
        except (ssl.SSLWantReadError, ssl.SSLWantWriteError):
            return False
        return t.done
    return f


def make_endpoint(net, transport, bs=16, maxrec=16, wlog=True, timeout=None, store=None, serial_cap=32, own=False):
    from ioflo.aio.tcp import clienting, serving
    from ioflo.aio.wiring import WireLog
    ep = Endpoint()
    if wlog:
        ep.wlog = WireLog(buffify=True, same=False)
        ep.wlog.reopen()
    if transport == "serial":
        from ioflo.aio.serial import serialing
        ep.serial = SimSerialOs(net.faults, cap=serial_cap, out=net.out)
        dev = serialing.DeviceNb.__new__(serialing.DeviceNb)
        dev.fd, dev.port, dev.speed, dev.bs, dev.opened = 7, "/dev/sim", 9600, bs, True
        ep.sut = serialing.Driver(name="drv", server=dev)
        ep.wlog = None
        return ep
    if transport in ("client", "clienttls"):
        lst = SimSocket(net, "peer")
        lst.bind(("0.0.0.0", PORT))
        lst.listen(5)
        kw = dict(ha=("127.0.0.1", PORT), bufsize=bs, wlog=ep.wlog, store=store, timeout=timeout)
        if own:      # the caller's own (still empty) transmit queue and receive buffer, handed over through the constructor
            from collections import deque
            ep.own_txes, ep.own_rxbs = deque(), bytearray()
            kw.update(txes=ep.own_txes, rxbs=ep.own_rxbs)
        if transport == "client":
            cl = clienting.Client(**kw)
        else:
            cl = clienting.ClientTls(context=StubContext(maxrec), **kw)
        cl.reopen()
        ep.client = ep.sut = cl
        acc = [None]

        def srv_side():
            if acc[0] is None:
                try:
                    s, ca = lst.accept()
                except OSError:
                    return False
                acc[0] = s if transport == "client" else SimTlsSocket(s, True, StubContext(maxrec))
                ep.peer_raw = s
            if transport == "client":
                return True
            return _try_hs(acc[0])()

        ok = _pump_handshake(net, lambda: cl.serviceConnect(), srv_side)
        if not ok:
            return None
        ep.peer = acc[0]
        ep.tls = cl.cs if transport == "clienttls" else None
        ep.sock = cl.cs.sock if transport == "clienttls" else cl.cs
        ep.da = cl.ha
        ep.listener = lst
        return ep
    if transport in ("incomer", "incomertls"):
        kw = dict(ha=("", PORT), bufsize=bs, wlog=ep.wlog, store=store, timeout=timeout)
        if transport == "incomer":
            srv = serving.Server(**kw)
        else:
            srv = serving.ServerTls(context=StubContext(maxrec), **kw)
        if not srv.reopen():
            return None
        ep.server = srv
        raw = SimSocket(net, "peer")
        ep.peer_raw = raw
        far = raw if transport == "incomer" else SimTlsSocket(raw, False, StubContext(maxrec))
        state = {"conn": False}

        def cli_side():
            if not state["conn"]:
                r = raw.connect_ex(("127.0.0.1", PORT))
                if r in (0,):
                    state["conn"] = True
                else:
                    return False
            if transport == "incomer":
                return True
            return _try_hs(far)()

        def srv_side():
            srv.serviceConnects()
            return len(srv.ixes) > 0

        ok = _pump_handshake(net, cli_side, srv_side)
        if not ok:
            return None
        ix = srv.ixes.values()[0]
        ep.sut = ix
        ep.peer = far
        ep.tls = ix.cs if transport == "incomertls" else None
        ep.sock = ix.cs.sock if transport == "incomertls" else ix.cs
        ep.da = ix.ca
        return ep
    raise ValueError(transport)


def parse_wirelog(buf, prefix, da, chunks):
    """Extracts the data of a buffified wire log given the size of each logged chunk.
    Returns (data, error)."""
    hdr = ("%s %s\n" % (prefix, da)).encode()
    pos = 0
    data = bytearray()
    for n in chunks:
        if n == 0:
            continue
        if buf[pos:pos + len(hdr)] != hdr:
            return bytes(data), "header expected at %d, found %r" % (pos, buf[pos:pos + len(hdr) + 8])
        pos += len(hdr)
        data.extend(buf[pos:pos + n])
        pos += n
        if buf[pos:pos + 1] != b"\n":
            return bytes(data), "terminator expected at %d (chunk of %d bytes), found %r" % (pos, n, buf[pos:pos + 12])
        pos += 1
    if pos != len(buf):
        return bytes(data), "trailing log bytes %r" % (buf[pos:pos + 40],)
    return bytes(data), None
