"""Real Patron <-> real Valet over the simulated network, with a plan-driven WSGI app."""
from ioflo.base.storing import Store

from netharn.http import HPORT
from substrate.tls import StubContext


class PlanApp(object):
    """WSGI app answering from a list of response shapes, selected by the request path /r<i>.

    shape: {"kind": "fixed" | "stream" | "empty" | "nolen-empty" | "error" | "late-error",
            "status": "200 OK", "pieces": [bytes...], "gaps": [n...], "headers": [[k, v]...]}
    A generator app: yields b'' `gaps[i]` times before piece i (asynchronous processing); pieces may be
    empty themselves.  With "aslist" (not for errors) the app is an ordinary function returning a list.
    """

    def __init__(self, shapes, record=None):
        self.shapes = shapes
        self.seen = []          # (index, environ snapshot, body) per call
        self.record = record

    def __call__(self, environ, start):
        path = environ.get("PATH_INFO", "")
        try:
            i = int(path.rsplit("/r", 1)[1].split("/")[0])
        except (IndexError, ValueError):
            i = -1
        shape = self.shapes[i] if 0 <= i < len(self.shapes) else {}
        if shape.get("aslist") and shape.get("kind") != "error":
            return list(self._gen(environ, start, nogaps=True))
        return self._gen(environ, start)

    def _gen(self, environ, start, nogaps=False):
        from ioflo.aio.http import httping
        path = environ.get("PATH_INFO", "")
        try:
            i = int(path.rsplit("/r", 1)[1].split("/")[0])
        except (IndexError, ValueError):
            i = -1
        body = environ["wsgi.input"].read()
        snap = dict((k, v) for k, v in environ.items() if not k.startswith("wsgi."))
        self.seen.append((i, snap, body))
        shape = self.shapes[i] if 0 <= i < len(self.shapes) else {"kind": "fixed", "status": "404 Not Found", "pieces": [b"nope"], "gaps": [0], "headers": []}
        kind = shape["kind"]
        pieces = [bytes(p) for p in shape.get("pieces", [])]
        gaps = list(shape.get("gaps", [])) + [0] * len(pieces)
        headers = [(str(k), str(v)) for k, v in shape.get("headers", [])]
        for g in range(0 if nogaps else shape.get("pregap", 0)):
            yield b""
        if kind == "error":
            from ioflo.aid.odicting import odict
            raise httping.HTTPError(int(shape["status"].split()[0]), reason=shape.get("reason", ""), title=shape.get("title", "T%d" % i),
                                    detail=shape.get("detail", "D%d" % i), fault=shape.get("fault"),
                                    headers=odict((str(k), str(v)) for k, v in shape["eheaders"]) if shape.get("eheaders") else None)
        if kind in ("fixed", "empty"):
            # "declared": a response that is bodiless by rule (HEAD, 304) may still declare the length of the entity
            headers.append(("Content-Length", str(shape.get("declared", sum(len(p) for p in pieces)))))
        if not any(k.lower() == "content-type" for k, v in headers):
            headers.append(("Content-Type", "text/plain"))
        start(shape.get("status", "200 OK"), headers)
        retval = None
        if shape.get("retval") and pieces and not nogaps:
            retval = pieces.pop()       # the last piece is handed over as the generator's return value (StopIteration.value)
        for p, g in zip(pieces, gaps):
            for _ in range(0 if nogaps else g):
                yield b""
            yield p
        if retval is not None:
            return retval


class Duo(object):
    def __init__(self, net, app, tls=False, bs_c=4096, bs_s=4096, timeout_s=0.0, store_c=None, store_s=None,
                 patron_kw=None, maxrec=64, port=HPORT):
        from ioflo.aio.http import clienting, serving
        self.net = net
        self.store_c = store_c or Store(stamp=0.0)
        self.store_s = store_s or Store(stamp=0.0)
        self.ctx = StubContext(maxrec)
        kw = dict(store=self.store_s, app=app, ha=("", port), bufsize=bs_s, timeout=timeout_s)
        if tls:
            kw.update(scheme="https", context=self.ctx)
        self.valet = serving.Valet(**kw)
        if not self.valet.open():
            raise RuntimeError("harness: valet did not open")
        pk = dict(store=self.store_c, hostname="127.0.0.1", port=port, bufsize=bs_c)
        if tls:
            pk.update(scheme="https", context=self.ctx)
        pk.update(patron_kw or {})
        self.patron = clienting.Patron(**pk)
        self.patron.open()

    def connect(self, rounds=12):
        for i in range(rounds):
            self.patron.serviceAll()
            self.net.deliver_all()
            self.valet.serviceAll()
            self.net.deliver_all()
            if self.patron.connector.connected and len(self.valet.servant.ixes) > 0:
                return True
        return False

    def client_sock(self):
        cs = self.patron.connector.cs
        return getattr(cs, "sock", cs)

    def server_sock(self):
        if not self.valet.servant.ixes:
            return None
        cs = self.valet.servant.ixes.values()[0].cs
        return getattr(cs, "sock", cs) if cs is not None else None
